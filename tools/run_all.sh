#!/bin/sh
# runs every registered check's quick (or $1) tier at VERIF_SEED, prints a one-line summary per check
tier=${1:-quick}
cd "$(dirname "$0")/.." || exit 1
for c in C01 C02 C03 C04 C05 C06 C07 C08 C09 C10 C11 C12 C13 C14 C15 C16 C17 C18 C19 C20; do
  out=$(./check $c --tier $tier 2>&1); rc=$?
  echo "$c exit=$rc $(echo "$out" | grep "^$c tier" | cut -c1-150)"
  if [ $rc -ne 0 ]; then echo "$out" | grep "signature\|INCONC\|VIOLATION" | cut -c1-250 | head -5; fi
done
