#!/usr/bin/env python3
import json,sys
d=json.load(open(sys.argv[1]))
p=d.get('input',d)
def dur(n):
    n=int(n)
    if n==0: return "0"
    for u,k in (("s",10**9),("ms",10**6),("us",10**3)):
        if abs(n)>=k: return "%.6g%s"%(n/k,u)
    return "%dns"%n
print("profile=%s H=%s TTL=%s horizon=%s dice=%s hang_for=%s"%(p.get('profile'),dur(p['h']),dur(p['ttl']),dur(p['horizon']),p.get('dice'),p.get('hang_for')))
for i,x in enumerate(p['instances']):
    y=dict(x); y['lat']=[dur(v) for v in x.get('lat',[])]
    if 'watch_delay' in y: y['watch_delay']=[dur(v) for v in y['watch_delay']]
    for k in ('vi','grace','demote_dur'):
        if k in y: y[k]=dur(y[k])
    print(" inst",i,json.dumps(y))
for w in p.get('windows',[]) or []:
    print(" window",json.dumps(w))
for a in p['timeline']:
    b=dict(a); b['at']=dur(a['at'])
    for k in ('timeout','ctx_timeout'):
        if k in b: b[k]=dur(b[k])
    print(" @",json.dumps(b)[:300])
