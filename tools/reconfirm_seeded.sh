#!/bin/sh
# tools/reconfirm_seeded.sh <seeded id> : on a fresh scratch worktree of /repo HEAD, does the stored patch still apply,
# and does its demonstration still fail with it / pass without it?  (The worktree is removed afterwards.)
id=$1
export GOFLAGS=-mod=mod GOPROXY=off GOSUMDB=off GOTOOLCHAIN=local
GO=/root/go/pkg/mod/golang.org/toolchain@v0.0.1-go1.25.4.linux-amd64/bin/go
wt=/tmp/wt-reconfirm-$id
git -C /repo worktree remove --force $wt >/dev/null 2>&1
git -C /repo worktree add -q --detach $wt HEAD || exit 2
cd $wt
if ! git apply /verif/seeded/$id/patch.diff; then echo "$id: patch does not apply to HEAD"; cd /; git -C /repo worktree remove --force $wt; exit 3; fi
for f in /verif/seeded/$id/*_test.go.txt; do cp "$f" leader/$(basename "$f" .txt); done
race=""; case $id in C20*) race="-race";; esac
$GO test $race -vet=off -count=1 -run 'Seeded' ./leader/ > /tmp/reconf-$id-with.log 2>&1; w=$?
git apply -R /verif/seeded/$id/patch.diff
$GO test $race -vet=off -count=1 -run 'Seeded' ./leader/ > /tmp/reconf-$id-without.log 2>&1; wo=$?
echo "$id: demo with change exit=$w (want != 0), without exit=$wo (want 0)"
cd /; git -C /repo worktree remove --force $wt
