#!/usr/bin/env python3
"""For every 'fix:' commit in /repo: revert it in the working tree (no commit), run the quick check of the
properties it is recorded for, expect a VIOLATION, keep the shrunk replay as a regression plan, restore /repo.
Writes tools/revert_sensitivity.out (a table) - the check machinery itself never runs this."""
import json, os, re, shutil, subprocess, sys
VERIF = os.path.dirname(os.path.dirname(os.path.abspath(__file__)))
MAP = [
 ("7855987", ["C16"], 20000), ("43a50d8", ["C09"], 3000), ("bd7c6a6", ["C02", "C09"], 3000), ("5c5e0da", ["C15", "C03"], 3000),
 ("cdf48bf", ["C07", "C18"], 6000), ("cb56d3a", ["C07"], 3000), ("86f62ac", ["C07"], 3000), ("bcb2496", ["C08"], 4000),
 ("ba0e5dd", ["C11"], 3000), ("6f91cab", ["C13"], 3000), ("6fcf68c", ["C18"], 3000), ("31f06df", ["C19"], 3000),
 ("a8262ab", ["C05"], 6000), ("8821a41", ["C05", "C01"], 6000), ("75845c9", ["C12"], 3000), ("a1998c2", ["C12"], 6000),
 ("33ae456", ["C06"], 3000), ("246dbb4", ["C09"], 4000), ("d2c04b8", ["C11"], 8000), ("bd038fc", ["C14"], 60),
 ("eee961b", ["C20"], 400), ("30a601c", ["C20", "C11"], 600),
 ("ee785ef", ["C08"], 4000), ("8af5a8c", ["C18"], 4000), ("80f63ee", ["C08"], 4000), ("c69dd87", ["C18"], 4000), ("a5fef3a", ["C06"], 3000),
 ("693e888", ["C14"], 120), ("c5459e4", ["C11"], 4000), ("e67dfae", ["C02"], 4000), ("899cd68", ["C12", "C18"], 4000), ("a2a3e4f", ["C20", "C09"], 800),
 ("69ecb2e", ["C01"], 4000), ("d26ff9f", ["C02", "C13"], 4000), ("6d75254", ["C07", "C09"], 4000), ("6af8f1c", ["C11"], 4000), ("76533b9", ["C12"], 3000),
 ("9f3051f", ["C07"], 3000), ("1ee9d9f", ["C18"], 3000), ("5240efb", ["C11"], 3000), ("69a5ce0", ["C05"], 3000),
 ("f9b49cf", ["C08"], 4000), ("e5c9492", ["C12"], 4000),
 ("c76dfc6", ["C18"], 4000), ("0052f8e", ["C08"], 4000),
 ("5dd8649", ["C09"], 3000), ("cac7530", ["C09"], 3000), ("f6c97b4", ["C18"], 4000), ("f2a9d68", ["C08", "C18"], 4000), ("7096a08", ["C01", "C05"], 4000),
]
only = sys.argv[1:]
rows = []
def git(*a):
    return subprocess.run(["git", "-C", "/repo", *a], capture_output=True, text=True)
assert git("status", "--porcelain").stdout.strip() == "", "/repo must be clean"
for sha, props, cases in MAP:
    if only and sha not in only:
        continue
    r = git("revert", "--no-commit", sha)
    if r.returncode != 0:
        git("revert", "--abort"); git("reset", "--hard", "HEAD")
        rows.append((sha, "-", "revert conflicts with later fixes (not testable in isolation)", ""))
        continue
    git("reset", "-q")  # keep the change in the working tree only
    b = subprocess.run("cd /repo && GOFLAGS=-mod=mod GOPROXY=off GOSUMDB=off GOTOOLCHAIN=local /root/go/pkg/mod/golang.org/toolchain@v0.0.1-go1.25.4.linux-amd64/bin/go build ./...", shell=True, capture_output=True, text=True)
    if b.returncode != 0:
        rows.append((sha, "-", "reverted tree does not build", b.stderr[:200]))
        git("checkout", "--", "."); git("clean", "-fdq")
        continue
    for prop in props:
        p = subprocess.run([os.path.join(VERIF, "check"), prop, "--cases", str(cases)], capture_output=True, text=True, cwd=VERIF)
        sigs = re.findall(r"^  signature: (.*)$", p.stdout, re.M)
        reps = re.findall(r"^VIOLATION property=\S+ replay=(\S+)$", p.stdout, re.M)
        rows.append((sha, prop, "exit %d" % p.returncode, "; ".join(sigs[:3])))
        if p.returncode == 1 and reps and os.path.exists(reps[0]):
            d = os.path.join(VERIF, "regressions", prop)
            os.makedirs(d, exist_ok=True)
            try:
                j = json.load(open(reps[0]))
                if isinstance(j.get("input"), dict) and "timeline" in j["input"] and os.path.getsize(reps[0]) < 300000:
                    shutil.copyfile(reps[0], os.path.join(d, "fix-%s.json" % sha))
            except (OSError, ValueError):
                pass
        print(rows[-1], flush=True)
    git("checkout", "--", "."); git("clean", "-fdq")
assert git("status", "--porcelain").stdout.strip() == ""
with open(os.path.join(VERIF, "tools", "revert_sensitivity.out"), "a") as f:
    for r in rows:
        f.write(" | ".join(r) + "\n")
print("done")
