#!/usr/bin/env python3
"""tools/recheck_seeded.py <Cxx> <seeded id> [--tier quick|thorough]

Applies the stored /verif/seeded/<id>/patch.diff to /repo, runs ./check <Cxx>, undoes the patch, and records the
result in seeded/<id>/meta.json (the previous result moves to "history")."""
import json, os, re, subprocess, sys, time
VERIF = os.path.dirname(os.path.dirname(os.path.abspath(__file__)))
prop, sid = sys.argv[1], sys.argv[2]
tier = sys.argv[sys.argv.index("--tier") + 1] if "--tier" in sys.argv else "quick"
mp = os.path.join(VERIF, "seeded", sid, "meta.json")
meta = json.load(open(mp))
assert subprocess.run("git -C /repo status --porcelain", shell=True, capture_output=True, text=True).stdout.strip() == "", "/repo must be clean"
r = subprocess.run("git -C /repo apply %s" % os.path.join(VERIF, "seeded", sid, "patch.diff"), shell=True, capture_output=True, text=True)
if r.returncode != 0:
    print(sid, "patch does not apply to HEAD:", r.stderr.strip()[:200]); sys.exit(3)
try:
    t0 = time.time()
    p = subprocess.run([os.path.join(VERIF, "check"), prop, "--tier", tier], cwd=VERIF, capture_output=True, text=True)
    sigs = re.findall(r"^  signature: (.*)$", p.stdout, re.M)
    new = dict(cmd="./check %s --tier %s" % (prop, tier), exit=p.returncode, signatures=sigs[:6], wall_s=round(time.time() - t0, 1),
               summary=[l for l in p.stdout.splitlines() if l.startswith(prop + " tier")])
finally:
    subprocess.run("git -C /repo checkout -- . && git -C /repo clean -fdq", shell=True)
meta.setdefault("history", []).append(dict(ran_at=meta.get("ran_at"), check=meta.get("check"), note=meta.get("note", "")))
meta["ran_at"], meta["check"], meta["detected"] = time.strftime("%Y-%m-%d %H:%M:%S"), new, new["exit"] == 1
json.dump(meta, open(mp, "w"), indent=1)
print(sid, "check exit=%s" % new["exit"], new["signatures"][:2])
