#!/usr/bin/env python3
"""Confirms a sub-agent's seeded change and runs the property's check against it.

  tools/try_seeded.py <Cxx> <agent worktree dir>  [--tier quick|thorough] [--skip-confirm]

1. in a fresh scratch worktree of /repo HEAD (removed afterwards): apply SEEDED/patch.diff; build; run the pinned
   suite (must pass); run the demonstration with the change (must fail) and without it (must pass);
2. apply the patch to /repo, run ./check <Cxx>, undo (git checkout);
3. store patch, demonstration and meta.json under /verif/seeded/<Cxx>/.
"""
import json, os, re, shutil, subprocess, sys, time
VERIF = os.path.dirname(os.path.dirname(os.path.abspath(__file__)))
GO = "/root/go/pkg/mod/golang.org/toolchain@v0.0.1-go1.25.4.linux-amd64/bin/go"
ENV = dict(os.environ, GOFLAGS="-mod=mod", GOPROXY="off", GOSUMDB="off", GOTOOLCHAIN="local")

def sh(cmd, cwd=None, timeout=1800):
    p = subprocess.run(cmd, shell=True, cwd=cwd, env=ENV, capture_output=True, text=True, timeout=timeout)
    return p.returncode, (p.stdout + p.stderr)

def main():
    prop, src = sys.argv[1], sys.argv[2].rstrip("/")
    tier = "quick"
    if "--tier" in sys.argv:
        tier = sys.argv[sys.argv.index("--tier") + 1]
    sid = prop
    if "--id" in sys.argv:
        sid = sys.argv[sys.argv.index("--id") + 1]
    seeded = os.path.join(src, "SEEDED")
    patch = os.path.join(seeded, "patch.diff")
    demos = [f for f in os.listdir(seeded) if f.endswith("_test.go") or f.endswith("_test.go.txt")]
    meta = dict(property=prop, source_worktree=src, ran_at=time.strftime("%Y-%m-%d %H:%M:%S"), steps=[])
    ok = True
    if "--skip-confirm" not in sys.argv:
        wt = "/tmp/wt-verify-%s" % sid
        sh("git -C /repo worktree remove --force %s" % wt)
        rc, out = sh("git -C /repo worktree add -q --detach %s HEAD" % wt)
        try:
            rc, out = sh("git apply %s" % patch, cwd=wt)
            meta["steps"].append(dict(step="git apply patch.diff on clean HEAD", rc=rc, out=out[-300:]))
            ok &= rc == 0
            rc, out = sh("%s build ./... && %s test -vet=off -count=1 ./... 2>&1 | tail -5" % (GO, GO), cwd=wt)
            passed = rc == 0 and "FAIL" not in out
            meta["steps"].append(dict(step="pinned suite with the change", passed=passed, out=out[-400:]))
            ok &= passed
            for d in demos:
                shutil.copyfile(os.path.join(seeded, d), os.path.join(wt, "leader", d[:-4] if d.endswith(".txt") else d))
            names = []
            for d in demos:
                names += re.findall(r"func (Test\w+)\(", open(os.path.join(seeded, d)).read())
            run = "^(%s)$" % "|".join(names) if names else "Seeded"
            race = "-race " if prop == "C20" else ""
            rc1, out1 = sh("%s test %s-vet=off -count=1 -run '%s' ./leader/ 2>&1 | tail -15" % (GO, race, run), cwd=wt)
            failed_with = "FAIL" in out1 or "panic" in out1
            meta["steps"].append(dict(step="demonstration with the change (must fail)", failed=failed_with, out=out1[-600:]))
            ok &= failed_with
            sh("git apply -R %s" % patch, cwd=wt)
            rc2, out2 = sh("%s test %s-vet=off -count=1 -run '%s' ./leader/ 2>&1 | tail -8" % (GO, race, run), cwd=wt)
            passed_without = "FAIL" not in out2 and "ok" in out2
            meta["steps"].append(dict(step="demonstration without the change (must pass)", passed=passed_without, out=out2[-400:]))
            ok &= passed_without
        finally:
            sh("git -C /repo worktree remove --force %s" % wt)
    meta["confirmed"] = bool(ok)
    prev_path = os.path.join(VERIF, "seeded", sid, "meta.json")
    prev = json.load(open(prev_path)) if os.path.exists(prev_path) else None
    if prev is not None:
        meta["history"] = prev.get("history", []) + [dict(ran_at=prev.get("ran_at"), check=prev.get("check"), note=prev.get("note", ""))]
        if "--skip-confirm" in sys.argv:
            meta["steps"], meta["confirmed"] = prev.get("steps", []), prev.get("confirmed", False)
    # run our check against it
    rc, out = sh("git -C /repo status --porcelain")
    assert out.strip() == "", "/repo must be clean"
    rc, out = sh("git -C /repo apply %s" % patch)
    try:
        t0 = time.time()
        p = subprocess.run([os.path.join(VERIF, "check"), prop, "--tier", tier], cwd=VERIF, capture_output=True, text=True)
        sigs = re.findall(r"^  signature: (.*)$", p.stdout, re.M)
        meta["check"] = dict(cmd="./check %s --tier %s" % (prop, tier), exit=p.returncode, signatures=sigs[:6], wall_s=round(time.time() - t0, 1),
                             summary=[l for l in p.stdout.splitlines() if l.startswith(prop + " tier")])
    finally:
        sh("git -C /repo checkout -- . && git -C /repo clean -fdq")
    meta["detected"] = meta["check"]["exit"] == 1
    dst = os.path.join(VERIF, "seeded", sid)
    os.makedirs(dst, exist_ok=True)
    shutil.copyfile(patch, os.path.join(dst, "patch.diff"))
    for d in demos:
        # not *_test.go inside /verif's tree: keep as .txt so that go tooling never picks it up
        shutil.copyfile(os.path.join(seeded, d), os.path.join(dst, d if d.endswith(".txt") else d + ".txt"))
    if os.path.exists(os.path.join(seeded, "notes.md")):
        shutil.copyfile(os.path.join(seeded, "notes.md"), os.path.join(dst, "agent_notes.md"))
    json.dump(meta, open(os.path.join(dst, "meta.json"), "w"), indent=1)
    print(sid, "confirmed=%s" % meta["confirmed"], "check exit=%s" % meta["check"]["exit"], meta["check"]["signatures"][:2])

main()
