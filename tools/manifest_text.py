ENGINES = [
    dict(name="pure", path="harness/pure", serves_properties=["C15", "C16", "C17"],
         kind_free_text="function-level property-based tests (rapid) with independent oracles; exhaustive lattice enumeration; native go fuzz targets in the thorough tier"),
]
NOT_APPLICABLE = {}
TEXT = {
 "C16": dict(engine="pure", design_ref="DESIGN.md section 6, C16",
    technique="property-based testing (rapid) + exhaustive boundary-lattice enumeration against an independent predicate",
    level_text="NewElection is run on generated configurations (boundary lattice of every field, pairwise deviations enumerated completely, uniform draws; the whole ~3.3M-point lattice product enumerated in the thorough tier) and its accept/reject decision, the named field, and the absence of side effects (store contact, goroutines, collaborator calls) are compared with a predicate transcribed from the statement.",
    level_note="Trusts the transcription of the documented rules in violatedFields(); durations limited to +-1 year so that 3*H does not overflow; not a proof: values between lattice points are sampled, not enumerated."),
}
