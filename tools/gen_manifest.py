#!/usr/bin/env python3
"""Regenerates MANIFEST.json from checks_registry.py + tools/manifest_text.py."""
import json, os, subprocess, sys
VERIF = os.path.dirname(os.path.dirname(os.path.abspath(__file__)))
sys.path.insert(0, VERIF)
sys.path.insert(0, os.path.join(VERIF, "tools"))
from checks_registry import CHECKS
from manifest_text import TEXT, NOT_APPLICABLE, ENGINES

props = [json.loads(l)["id"] for l in open(os.path.join(VERIF, "properties.jsonl"))]
hook_commits = subprocess.run(["git", "-C", "/repo", "log", "--format=%H", "--grep=^verif hook"], capture_output=True, text=True).stdout.split()
checks = []
for pid in props:
    if pid not in CHECKS:
        continue
    c, t = CHECKS[pid], TEXT[pid]
    d = dict(property_id=pid,
             quick_cmd="./check %s --tier quick" % pid,
             thorough_cmd="./check %s --tier thorough" % pid,
             evidence_file="/verif/evidence/%s.json" % pid,
             replay_cmd_template="./check %s --replay {path}" % pid,
             engine=t["engine"],
             level_claimed=dict(category=c["level"], text=t["level_text"], design_ref=t["design_ref"]),
             level_note=t["level_note"],
             technique=t["technique"])
    checks.append(d)
na = [dict(property_id=p, reason=NOT_APPLICABLE.get(p, "check not built yet in this session (work in progress; see DESIGN.md section 10)")) for p in props if p not in CHECKS]
m = dict(version=1,
         setup_cmd="./setup.sh",
         hooks=dict(guard="verif", enable="go test -tags verif -overlay /verif/.build/overlay.json (done by ./check)",
                    baseline_off_cmd="cd /repo && GOFLAGS=-mod=mod GOPROXY=off go test -json -vet=off -count=1 -timeout 25m ./...",
                    source_commits=hook_commits, add_only=True),
         engines=ENGINES,
         checks=checks,
         notes="All checks are property-based tests / fuzzing (pgregory.net/rapid v1.3.0, native go fuzzing in thorough tiers) driven by ./check; see DESIGN.md. known_findings.json lists recorded and fixed defects.",
         not_applicable=na)
json.dump(m, open(os.path.join(VERIF, "MANIFEST.json"), "w"), indent=1)
print("MANIFEST.json: %d checks, %d not_applicable" % (len(checks), len(na)))
