package sim

import (
	"fmt"
)

// failedStops: objects (and from which sequence number on) whose stop call
// returned an error; the property speaks about "successful StopWithContext".
func (tr *Trace) failedStops() map[int]int {
	m := map[int]int{}
	for _, a := range tr.APIs {
		if (a.Call == "Stop" || a.Call == "StopWithContext") && a.RetSeq >= 0 && a.Err != "" && a.Err != "already stopped" {
			if old, ok := m[a.Obj]; !ok || a.CallSeq < old {
				m[a.Obj] = a.CallSeq
			}
		}
	}
	return m
}

// demoteReason finds the library's "leader_demoted reason=..." log line that
// precedes an OnDemote entry in the same goroutine (auxiliary, for signatures).
func (tr *Trace) demoteReason(cb *CB) string {
	r := "?"
	for _, l := range tr.Logs {
		if l.Seq > cb.Seq {
			break
		}
		if l.Obj == cb.Obj && l.Msg == "leader_demoted" && cb.Seq-l.Seq < 6 {
			r = l.Fields["reason"]
		}
	}
	return r
}

// OracleC08: promotion / demotion callbacks mirror leadership exactly.
func OracleC08(tr *Trace) Verdict {
	v := Verdict{Premise: true}
	ci := tr.causes()
	failed := tr.failedStops()
	claims := tr.Claims()
	claimsByObj := map[int][]*Claim{}
	for _, c := range claims {
		claimsByObj[c.Obj] = append(claimsByObj[c.Obj], c)
	}
	cbs := map[int][]*CB{}
	for _, c := range tr.CBs {
		if c.Kind == "promote-enter" || c.Kind == "demote-enter" {
			cbs[c.Obj] = append(cbs[c.Obj], c)
		}
	}
	causes := map[string]bool{}
	for _, c := range claims {
		if c.ToSeq >= 0 && c.ToT < tr.End {
			cause := ci.CauseOf(c.Down)
			causes[cause] = true
			if cause != CauseStop {
				v.Nontrivial = true
			}
		}
	}
	for c := range causes {
		v.Classes = append(v.Classes, "demotion-cause="+c)
	}
	lastDownCause := func(obj, before int) string {
		cause := CauseUnknown
		for _, c := range claimsByObj[obj] {
			if c.ToSeq >= 0 && c.ToSeq < before {
				cause = ci.CauseOf(c.Down)
			}
		}
		return cause
	}
	for obj, list := range cbs {
		who := fmt.Sprintf("%s#%d", tr.ID(list[0].Inst), obj)
		// A Start that is issued while a stop call on the same election is still waiting for the run's goroutines
		// begins a new run, which can be promoted before the stop call gets round to the OnDemote of the term it
		// ended: OnPromote, OnPromote, OnDemote. That breaks the alternation (known finding); the late OnDemote
		// is taken out of the sequence here so that everything after it is judged as usual.
		excusedPP, lateD := map[int]bool{}, map[int]bool{}
		for i := 1; i < len(list); i++ {
			if list[i-1].Kind != "promote-enter" || list[i].Kind != "promote-enter" {
				continue
			}
			if b := tr.stopOverlappedByStart(obj, list[i-1].Seq, list[i].Seq); b != nil && i+1 < len(list) && list[i+1].Kind == "demote-enter" &&
				(b.RetSeq < 0 || list[i+1].Seq < b.RetSeq || (b.Action != nil && !b.Action.WaitForDemote && b.Call == "StopWithContext")) {
				v.Viols = append(v.Viols, Viol{At: list[i].T, Sig: "C08 new-run-promoted-before-ondemote-of-the-run-being-stopped (Start overlapping a stop call)",
					Msg: fmt.Sprintf("%s: %s called at %v was still waiting for the run's goroutines when Start was called again; the new run was promoted at %v, the OnDemote of the stopped term came at %v: OnPromote, OnPromote, OnDemote", who, b.Call, b.CallT, list[i].T, list[i+1].T)})
				excusedPP[i], lateD[i+1] = true, true
			}
		}
		np := 0
		for i, cb := range list {
			if cb.T >= tr.End {
				break
			}
			if fs, ok := failed[obj]; ok && cb.Seq > fs {
				break
			}
			if cb.Kind == "promote-enter" {
				// the k-th promotion carries the token of the k-th term
				if cl := claimsByObj[obj]; np < len(cl) {
					if cl[np].Token != cb.Token {
						v.Viols = append(v.Viols, Viol{At: cb.T, Sig: "C08 onpromote-token-differs-from-term-token",
							Msg: fmt.Sprintf("%s: OnPromote #%d got token %.8s but the term that began at %v has token %.8s", who, np+1, cb.Token, cl[np].FromT, cl[np].Token)})
					}
				} else {
					v.Viols = append(v.Viols, Viol{At: cb.T, Sig: "C08 onpromote-without-term",
						Msg: fmt.Sprintf("%s: OnPromote #%d invoked at %v but only %d claim-up edges exist", who, np+1, cb.T, len(cl))})
				}
				np++
			}
			if i == 0 {
				if cb.Kind != "promote-enter" {
					v.Viols = append(v.Viols, Viol{At: cb.T, Sig: "C08 ondemote-before-any-onpromote", Msg: fmt.Sprintf("%s: first callback is OnDemote at %v", who, cb.T)})
				}
				continue
			}
			if lateD[i] || excusedPP[i] {
				continue
			}
			prev := list[i-1]
			if lateD[i-1] {
				prev = list[i-2]
			}
			if prev.Kind == cb.Kind {
				if cb.Kind == "demote-enter" {
					v.Viols = append(v.Viols, Viol{At: cb.T, Sig: fmt.Sprintf("C08 double-ondemote reasons=%s+%s", tr.demoteReason(prev), tr.demoteReason(cb)),
						Msg: fmt.Sprintf("%s: OnDemote invoked at %v and again at %v with no promotion in between", who, prev.T, cb.T)})
				} else {
					v.Viols = append(v.Viols, Viol{At: cb.T, Sig: "C08 missing-ondemote cause=" + lastDownCause(obj, cb.Seq),
						Msg: fmt.Sprintf("%s: OnPromote at %v and again at %v with no OnDemote in between (the term in between ended by: %s)", who, prev.T, cb.T, lastDownCause(obj, cb.Seq))})
				}
			}
		}
	}
	// leadership == (promotions - demotions == 1) at every quiescent point outside stop calls
	reported := map[int]bool{}
	for _, s := range tr.Snaps {
		if s.T > tr.End {
			break
		}
		for _, si := range s.Insts {
			if si.InStop || reported[si.Obj] {
				continue
			}
			if fs, ok := failed[si.Obj]; ok && s.Seq > fs {
				continue
			}
			lead := si.P-si.D == 1
			if si.IsLeader == lead && si.P-si.D >= 0 && si.P-si.D <= 1 {
				continue
			}
			reported[si.Obj] = true
			who := fmt.Sprintf("%s#%d", tr.ID(si.Inst), si.Obj)
			switch {
			case !si.IsLeader && si.P-si.D == 1:
				cause := lastDownCause(si.Obj, s.Seq)
				v.Viols = append(v.Viols, Viol{At: s.T, Sig: "C08 missing-ondemote cause=" + cause,
					Msg: fmt.Sprintf("%s at %v (quiescent, no stop call in progress): IsLeader()==false but OnPromote ran %d times and OnDemote %d times; leadership ended by: %s", who, s.T, si.P, si.D, cause)})
			case si.IsLeader && si.P-si.D == 0:
				v.Viols = append(v.Viols, Viol{At: s.T, Sig: "C08 leader-without-onpromote",
					Msg: fmt.Sprintf("%s at %v (quiescent): IsLeader()==true but OnPromote ran %d times and OnDemote %d times", who, s.T, si.P, si.D)})
			default:
				v.Viols = append(v.Viols, Viol{At: s.T, Sig: "C08 callback-count-mismatch",
					Msg: fmt.Sprintf("%s at %v (quiescent): IsLeader()==%v, OnPromote ran %d times, OnDemote %d times", who, s.T, si.IsLeader, si.P, si.D)})
			}
		}
	}
	sortViols(v.Viols)
	return v
}
