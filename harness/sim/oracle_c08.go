package sim

import (
	"sort"
	"fmt"
)

// failedStops: objects (and from which sequence number on) whose stop call
// returned an error; the property speaks about "successful StopWithContext".
func (tr *Trace) failedStops() map[int]int {
	m := map[int]int{}
	for _, a := range tr.APIs {
		// (the statement says "Stop, successful StopWithContext": whatever Stop returns, it ends the term with its
		// OnDemote; the exemption is for StopWithContext calls that failed and for the cancellation variant whose
		// "call" the harness gave up on)
		if (a.Call == "StopWithContext" || (a.Call == "Stop" && a.Action != nil && a.Action.Kind == ActCancelCtx)) && a.RetSeq >= 0 && a.Err != "" && a.Err != "already stopped" {
			if old, ok := m[a.Obj]; !ok || a.CallSeq < old {
				m[a.Obj] = a.CallSeq
			}
		}
	}
	return m
}

// demoteReason finds the library's "leader_demoted reason=..." log line that
// precedes an OnDemote entry in the same goroutine (auxiliary, for signatures).
func (tr *Trace) demoteReason(cb *CB) string {
	r := "?"
	for _, l := range tr.Logs {
		if l.Seq > cb.Seq {
			break
		}
		if l.Obj == cb.Obj && l.Msg == "leader_demoted" && cb.Seq-l.Seq < 6 {
			r = l.Fields["reason"]
		}
	}
	return r
}

// OracleC08: promotion / demotion callbacks mirror leadership exactly.
func OracleC08(tr *Trace) Verdict {
	v := Verdict{Premise: true}
	ci := tr.causes()
	failed := tr.failedStops()
	claims := tr.Claims()
	claimsByObj := map[int][]*Claim{}
	for _, c := range claims {
		claimsByObj[c.Obj] = append(claimsByObj[c.Obj], c)
	}
	cbs := map[int][]*CB{}
	for _, c := range tr.CBs {
		if c.Kind == "promote-enter" || c.Kind == "demote-enter" {
			cbs[c.Obj] = append(cbs[c.Obj], c)
		}
	}
	causes := map[string]bool{}
	for _, c := range claims {
		if c.ToSeq >= 0 && c.ToT < tr.End {
			cause := ci.CauseOf(c.Down)
			causes[cause] = true
			if cause != CauseStop {
				v.Nontrivial = true
			}
		}
	}
	for c := range causes {
		v.Classes = append(v.Classes, "demotion-cause="+c)
	}
	lastDownCause := func(obj, before int) string {
		cause := CauseUnknown
		for _, c := range claimsByObj[obj] {
			if c.ToSeq >= 0 && c.ToSeq < before {
				cause = ci.CauseOf(c.Down)
			}
		}
		return cause
	}
	for obj, list := range cbs {
		who := fmt.Sprintf("%s#%d", tr.ID(list[0].Inst), obj)
		// A Start that is issued while a stop call on the same election is still waiting for the run's goroutines
		// begins a new run, which can be promoted (and demoted, and promoted again) before the stop call gets
		// round to the OnDemote of the term it ended: OnPromote, OnPromote, ..., OnDemote. That breaks the
		// alternation (known finding). For such elections the callbacks are judged by balance instead: at most
		// one term is open, plus one per stop call that has begun on a leader, was overlapped by a Start, and
		// has not delivered its OnDemote yet.
		overlapped := tr.overlappedLeaderStops(obj)
		if len(overlapped) > 0 {
			type ev struct {
				seq  int
				kind string // P, D, stop-begin, stop-ret
				cb   *CB
				api  *APIRec
			}
			var evs []ev
			for _, cb := range list {
				k := "D"
				if cb.Kind == "promote-enter" {
					k = "P"
				}
				evs = append(evs, ev{seq: cb.Seq, kind: k, cb: cb})
			}
			for _, b := range overlapped {
				evs = append(evs, ev{seq: b.CallSeq, kind: "stop-begin", api: b})
				if b.RetSeq >= 0 {
					evs = append(evs, ev{seq: b.RetSeq, kind: "stop-ret", api: b})
				}
			}
			sort.Slice(evs, func(i, j int) bool { return evs[i].seq < evs[j].seq })
			open, pending, asyncOwed, np := 0, 0, 0, 0
			bad := false
			for _, e := range evs {
				if bad {
					break
				}
				if fs, ok := failed[obj]; ok && e.seq > fs {
					break
				}
				switch e.kind {
				case "stop-begin":
					pending++
				case "stop-ret":
					pending--
					if e.api.Err == "" {
						if e.api.Call == "StopWithContext" && e.api.Action != nil && !e.api.Action.WaitForDemote {
							asyncOwed++ // `go onDemote()`: it may begin a moment after the return
						} else if open > 1+pending {
							v.Viols = append(v.Viols, Viol{At: e.api.RetT, Sig: "C08 missing-ondemote cause=stop",
								Msg: fmt.Sprintf("%s: %s (called at %v on a leader, overlapped by a Start) returned at %v without having invoked the OnDemote of the term it ended: %d terms are open", who, e.api.Call, e.api.CallT, e.api.RetT, open)})
							bad = true
						}
					} else {
						bad = true // a failed stop call: what becomes of its OnDemote is not stated
					}
				case "P":
					if e.cb.T >= tr.End {
						bad = true
						break
					}
					if cl := claimsByObj[obj]; np < len(cl) && cl[np].Token != e.cb.Token {
						v.Viols = append(v.Viols, Viol{At: e.cb.T, Sig: "C08 onpromote-token-differs-from-term-token",
							Msg: fmt.Sprintf("%s: OnPromote #%d got token %.8s but the term that began at %v has token %.8s", who, np+1, e.cb.Token, cl[np].FromT, cl[np].Token)})
					}
					np++
					open++
					switch {
					case open > 1+pending+asyncOwed:
						v.Viols = append(v.Viols, Viol{At: e.cb.T, Sig: "C08 missing-ondemote cause=" + lastDownCause(obj, e.cb.Seq),
							Msg: fmt.Sprintf("%s: OnPromote at %v opens term %d while %d stop call(s) overlapped by a Start still owe their OnDemote (the term before ended by: %s)", who, e.cb.T, open, pending+asyncOwed, lastDownCause(obj, e.cb.Seq))})
						bad = true
					case open > 1:
						v.Viols = append(v.Viols, Viol{At: e.cb.T, Sig: "C08 new-run-promoted-before-ondemote-of-the-run-being-stopped (Start overlapping a stop call)",
							Msg: fmt.Sprintf("%s: a stop call on a leader was still waiting for the run's goroutines when Start was called again; the new run was promoted at %v before the OnDemote of the stopped term: OnPromote, OnPromote, ..., OnDemote", who, e.cb.T)})
					}
				case "D":
					if e.cb.T >= tr.End {
						bad = true
						break
					}
					open--
					if asyncOwed > 0 && open < 1+pending+asyncOwed {
						asyncOwed--
					}
					if open < 0 {
						v.Viols = append(v.Viols, Viol{At: e.cb.T, Sig: "C08 double-ondemote reasons=" + tr.demoteReason(e.cb),
							Msg: fmt.Sprintf("%s: OnDemote invoked at %v although no term is open", who, e.cb.T)})
						bad = true
					}
				}
			}
			continue
		}
		np := 0
		for i, cb := range list {
			if cb.T >= tr.End {
				break
			}
			if fs, ok := failed[obj]; ok && cb.Seq > fs {
				break
			}
			if cb.Kind == "promote-enter" {
				// the k-th promotion carries the token of the k-th term
				if cl := claimsByObj[obj]; np < len(cl) {
					if cl[np].Token != cb.Token {
						v.Viols = append(v.Viols, Viol{At: cb.T, Sig: "C08 onpromote-token-differs-from-term-token",
							Msg: fmt.Sprintf("%s: OnPromote #%d got token %.8s but the term that began at %v has token %.8s", who, np+1, cb.Token, cl[np].FromT, cl[np].Token)})
					}
				} else {
					v.Viols = append(v.Viols, Viol{At: cb.T, Sig: "C08 onpromote-without-term",
						Msg: fmt.Sprintf("%s: OnPromote #%d invoked at %v but only %d claim-up edges exist", who, np+1, cb.T, len(cl))})
				}
				np++
			}
			if i == 0 {
				if cb.Kind != "promote-enter" {
					v.Viols = append(v.Viols, Viol{At: cb.T, Sig: "C08 ondemote-before-any-onpromote", Msg: fmt.Sprintf("%s: first callback is OnDemote at %v", who, cb.T)})
				}
				continue
			}
			prev := list[i-1]
			if prev.Kind == cb.Kind {
				if cb.Kind == "demote-enter" {
					v.Viols = append(v.Viols, Viol{At: cb.T, Sig: fmt.Sprintf("C08 double-ondemote reasons=%s+%s", tr.demoteReason(prev), tr.demoteReason(cb)),
						Msg: fmt.Sprintf("%s: OnDemote invoked at %v and again at %v with no promotion in between", who, prev.T, cb.T)})
				} else {
					v.Viols = append(v.Viols, Viol{At: cb.T, Sig: "C08 missing-ondemote cause=" + lastDownCause(obj, cb.Seq),
						Msg: fmt.Sprintf("%s: OnPromote at %v and again at %v with no OnDemote in between (the term in between ended by: %s)", who, prev.T, cb.T, lastDownCause(obj, cb.Seq))})
				}
			}
		}
	}
	// leadership == (promotions - demotions == 1) at every quiescent point outside stop calls
	reported := map[int]bool{}
	for _, s := range tr.Snaps {
		if s.T > tr.End {
			break
		}
		for _, si := range s.Insts {
			if si.InStop || reported[si.Obj] {
				continue
			}
			if fs, ok := failed[si.Obj]; ok && s.Seq > fs {
				continue
			}
			lead := si.P-si.D == 1
			if si.IsLeader == lead && si.P-si.D >= 0 && si.P-si.D <= 1 {
				continue
			}
			reported[si.Obj] = true
			who := fmt.Sprintf("%s#%d", tr.ID(si.Inst), si.Obj)
			switch {
			case !si.IsLeader && si.P-si.D == 1:
				cause := lastDownCause(si.Obj, s.Seq)
				v.Viols = append(v.Viols, Viol{At: s.T, Sig: "C08 missing-ondemote cause=" + cause,
					Msg: fmt.Sprintf("%s at %v (quiescent, no stop call in progress): IsLeader()==false but OnPromote ran %d times and OnDemote %d times; leadership ended by: %s", who, s.T, si.P, si.D, cause)})
			case si.IsLeader && si.P-si.D == 0:
				v.Viols = append(v.Viols, Viol{At: s.T, Sig: "C08 leader-without-onpromote",
					Msg: fmt.Sprintf("%s at %v (quiescent): IsLeader()==true but OnPromote ran %d times and OnDemote %d times", who, s.T, si.P, si.D)})
			default:
				v.Viols = append(v.Viols, Viol{At: s.T, Sig: "C08 callback-count-mismatch",
					Msg: fmt.Sprintf("%s at %v (quiescent): IsLeader()==%v, OnPromote ran %d times, OnDemote %d times", who, s.T, si.IsLeader, si.P, si.D)})
			}
		}
	}
	sortViols(v.Viols)
	return v
}
