package sim

import (
	"fmt"
	"os"
	"time"

	"pgregory.net/rapid"
)

// GenReacquirePlan builds the shape "two acquisitions of one instance in flight at once": the key is removed
// repeatedly (outside deletes, or its owner's DeleteKey shutdown) while the candidates' Create answers are
// slow, so that an instance's second Create can be applied before the answer to its first has arrived, and
// the answers come back in either order. This is the situation in which a term is superseded by the
// instance's own re-acquisition.
func GenReacquirePlan(t *rapid.T, profile string) *Plan {
	h := rapid.SampledFrom([]time.Duration{100 * time.Millisecond, 300 * time.Millisecond, time.Second}).Draw(t, "H")
	p := &Plan{Profile: profile + "/reacquire", H: h, TTL: 3 * h, SnapEvery: odd(h/3 + 19*time.Microsecond)}
	n := rapid.IntRange(1, 3).Draw(t, "n")
	for i := 0; i < n; i++ {
		in := Inst{ID: fmt.Sprintf("r%d", i), Group: "g", Promote: rapid.SampledFrom([]int{0, 1, 1, 2}).Draw(t, "promote")}
		if rapid.IntRange(0, 2).Draw(t, "dd") == 0 {
			in.DemoteDur = rapid.SampledFrom([]time.Duration{time.Millisecond, 50 * time.Millisecond, 2 * time.Second}).Draw(t, "demote_dur")
		}
		in.Lat = []time.Duration{1, 3}
		// slow answers for some Creates: request fast, response slow (up to a few hundred ms)
		nr := rapid.IntRange(1, 5).Draw(t, "nrules")
		for j := 0; j < nr; j++ {
			in.Rules = append(in.Rules, OpRule{Kind: OpCreate, N: rapid.IntRange(0, 8).Draw(t, "create_n"), SetLat: true,
				ReqLat:  time.Duration(rapid.Int64Range(0, int64(2*time.Millisecond)).Draw(t, "req")),
				RespLat: time.Duration(rapid.Int64Range(int64(20*time.Millisecond), int64(400*time.Millisecond)).Draw(t, "resp"))})
		}
		if rapid.IntRange(0, 3).Draw(t, "takeover") == 0 {
			in.Priority, in.Takeover = rapid.IntRange(1, 3).Draw(t, "prio"), true
		}
		p.Instances = append(p.Instances, in)
		p.Timeline = append(p.Timeline, Action{At: odd(time.Duration(i) * 7), Kind: ActStart, Inst: i})
	}
	// a burst of outside deletes, 10-150ms apart, starting when the followers are watching
	cur := odd(time.Duration(rapid.Int64Range(int64(h/2), int64(3*h)).Draw(t, "first_del")))
	nd := rapid.IntRange(2, 8).Draw(t, "ndel")
	for j := 0; j < nd; j++ {
		p.Timeline = append(p.Timeline, Action{At: cur, Kind: ActExtDelete, Inst: -1, Key: "g"})
		cur += odd(time.Duration(rapid.Int64Range(int64(10*time.Millisecond), int64(150*time.Millisecond)).Draw(t, "del_gap")))
	}
	p.Horizon = cur + 6*h + p.TTL + 3*time.Second
	for i := 0; i < rapid.IntRange(0, 3).Draw(t, "ndice"); i++ {
		p.Dice = append(p.Dice, rapid.SampledFrom([]float64{0, 0.999999, 0.5}).Draw(t, "dice"))
	}
	sortTimeline(p)
	return p
}

// MixReacquire returns gen, except that one case in nine comes from each of GenReacquirePlan,
// GenRestartInFlightPlan, GenStragglerPlan, GenStopAfterUnnoticedLossPlan and GenStallPlan.
func MixReacquire(profile string, gen func(*rapid.T) *Plan) func(*rapid.T) *Plan {
	return func(t *rapid.T) *Plan {
		k := rapid.IntRange(0, 9).Draw(t, "shape")
		switch os.Getenv("VERIF_ONLY_SHAPE") { // (development aid)
		case "reacquire":
			k = 0
		case "restart":
			k = 1
		case "straggler":
			k = 2
		case "unnoticed-loss":
			k = 3
		case "stall":
			k = 4
		case "old-loop":
			k = 5
		}
		switch k {
		case 0:
			return GenReacquirePlan(t, profile)
		case 1:
			return GenRestartInFlightPlan(t, profile)
		case 2:
			return GenStragglerPlan(t, profile)
		case 3:
			return GenStopAfterUnnoticedLossPlan(t, profile)
		case 4:
			return GenStallPlan(t, profile)
		case 5:
			return GenOldWatchLoopPlan(t, profile)
		}
		return gen(t)
	}
}

// GenRestartInFlightPlan builds the shape "an election is stopped and started again while an acquisition of
// its own is still in flight": a leader gives the key up (graceful DeleteKey shutdown, outside delete, or
// plain Stop followed by expiry) and a follower's retry round sends the Create that will win; at a phase of
// one of the follower's Creates the follower is stopped and, before the answer arrives, started again.
// Fault-free: every latency is below H/4 per direction.
func GenRestartInFlightPlan(t *rapid.T, profile string) *Plan {
	h := rapid.SampledFrom([]time.Duration{200 * time.Millisecond, 400 * time.Millisecond, time.Second}).Draw(t, "H")
	p := &Plan{Profile: profile + "/restart-in-flight", H: h, TTL: 3 * h, SnapEvery: odd(h/3 + 29*time.Microsecond)}
	quarter := h/4 - 1
	p.Instances = []Inst{
		{ID: "L", Group: "g", Lat: []time.Duration{1, 3}},
		{ID: "F", Group: "g", Promote: rapid.SampledFrom([]int{0, 1, 2}).Draw(t, "promote"),
			Lat: []time.Duration{odd(time.Duration(rapid.Int64Range(0, int64(quarter/4)).Draw(t, "req"))), odd(time.Duration(rapid.Int64Range(int64(quarter/2), int64(quarter)).Draw(t, "resp")))}},
	}
	if rapid.Bool().Draw(t, "third") {
		p.Instances = append(p.Instances, Inst{ID: "G", Group: "g", Lat: []time.Duration{5, 7}})
	}
	p.Timeline = []Action{{At: 1, Kind: ActStart, Inst: 0}, {At: odd(h / 2), Kind: ActStart, Inst: 1}}
	if len(p.Instances) > 2 {
		p.Timeline = append(p.Timeline, Action{At: odd(h/2 + time.Duration(rapid.Int64Range(1, int64(4*h)).Draw(t, "g_start"))), Kind: ActStart, Inst: 2})
	}
	tv := odd(h/2 + time.Duration(rapid.Int64Range(int64(100*time.Millisecond), int64(1500*time.Millisecond)).Draw(t, "t_vacancy")))
	switch rapid.IntRange(0, 2).Draw(t, "how") {
	case 0:
		p.Timeline = append(p.Timeline, Action{At: tv, Kind: ActStopCtx, Inst: 0, DeleteKey: true})
	case 1:
		p.Timeline = append(p.Timeline, Action{At: tv, Kind: ActStop, Inst: 0})
	default:
		p.Timeline = append(p.Timeline, Action{At: tv, Kind: ActStopCtx, Inst: 0, DeleteKey: true, WaitForDemote: true})
	}
	// the follower is restarted inside one of its own Creates
	nr := rapid.IntRange(1, 3).Draw(t, "nrules")
	seen := map[int]bool{}
	for j := 0; j < nr; j++ {
		n := rapid.IntRange(1, 9).Draw(t, "create_n")
		if seen[n] {
			continue
		}
		seen[n] = true
		stop := GenStopAction(t, 0, 1, h)
		stop.DeleteKey = false // (deleting would simply undo the acquisition under test)
		tr := &Trigger{Phase: rapid.SampledFrom([]string{"issued", "applied", "applied"}).Draw(t, "phase"), Action: stop,
			Follow:      &Action{Kind: ActStart, Inst: 1},
			FollowDelay: odd(time.Duration(rapid.Int64Range(1, int64(quarter/2)).Draw(t, "follow_delay")))}
		p.Instances[1].Rules = append(p.Instances[1].Rules, OpRule{Kind: OpCreate, N: n, Trigger: tr})
	}
	p.Horizon = tv + 10*h + p.TTL + 2*time.Second
	for i := 0; i < rapid.IntRange(0, 3).Draw(t, "ndice"); i++ {
		p.Dice = append(p.Dice, rapid.SampledFrom([]float64{0, 0.999999, 0.5}).Draw(t, "dice"))
	}
	sortTimeline(p)
	return p
}

// MixShapes returns gen, except that some cases come from the given shape generators.
func MixShapes(gen func(*rapid.T) *Plan, shapes ...func(*rapid.T) *Plan) func(*rapid.T) *Plan {
	return func(t *rapid.T) *Plan {
		k := rapid.IntRange(0, 3+len(shapes)).Draw(t, "shape")
		if os.Getenv("VERIF_ONLY_SHAPES") != "" {
			k = k % len(shapes)
		}
		if k < len(shapes) {
			return shapes[k](t)
		}
		return gen(t)
	}
}

// GenStopAfterUnnoticedLossPlan builds the shape "a leader shuts down gracefully just after it has lost its
// record without having noticed": a higher-priority instance takes the record over (or the record is
// deleted from outside and a successor creates it) and, before the old leader's next heartbeat finds out,
// the old leader is stopped - usually with DeleteKey. Its OnPromote callback takes a while to wind down, so
// the stop call spends time waiting for the run's goroutines, and the application may already start the
// election again (from another goroutine) during that wait. Whatever the old leader's shutdown deletes must
// be its own record, never the successor's.
func GenStopAfterUnnoticedLossPlan(t *rapid.T, profile string) *Plan {
	h := rapid.SampledFrom([]time.Duration{300 * time.Millisecond, time.Second, 3 * time.Second}).Draw(t, "H")
	p := &Plan{Profile: profile + "/stop-after-unnoticed-loss", H: h, TTL: 3 * h, SnapEvery: odd(h/3 + 31*time.Microsecond)}
	p.PlainDelete = rapid.IntRange(0, 4).Draw(t, "plain_delete") == 0
	a := Inst{ID: "A", Group: "g", Priority: 1, Takeover: rapid.Bool().Draw(t, "a_takeover"), VI: 3 * h, Lat: []time.Duration{1, 3},
		Promote: rapid.SampledFrom([]int{1, 1, 2, 0}).Draw(t, "promote")}
	if a.Promote != 0 {
		a.PromoteLinger = rapid.SampledFrom([]time.Duration{0, time.Millisecond, h / 2, 2 * time.Second}).Draw(t, "linger")
	}
	if rapid.IntRange(0, 2).Draw(t, "dd") == 0 {
		a.DemoteDur = rapid.SampledFrom([]time.Duration{time.Millisecond, 50 * time.Millisecond}).Draw(t, "demote_dur")
	}
	b := Inst{ID: "B", Group: "g", Priority: 2, Takeover: true, Lat: []time.Duration{3, 5}, Promote: rapid.SampledFrom([]int{0, 1}).Draw(t, "b_promote")}
	p.Instances = []Inst{a, b}
	p.Timeline = []Action{{At: 1, Kind: ActStart, Inst: 0}}
	tB := odd(h + time.Duration(rapid.Int64Range(0, int64(2*h)).Draw(t, "t_b")))
	switch rapid.IntRange(0, 2).Draw(t, "how") {
	case 0, 1:
		// B arrives and preempts
		p.Timeline = append(p.Timeline, Action{At: tB, Kind: ActStart, Inst: 1})
	default:
		// B is there already (no takeover: same priority as A would not do, so it simply is disabled); the
		// record is deleted from outside and B's watcher makes it the successor
		p.Instances[1].Takeover, p.Instances[1].Priority = false, 0
		p.Timeline = append(p.Timeline, Action{At: odd(h / 3), Kind: ActStart, Inst: 1}, Action{At: tB, Kind: ActExtDelete, Inst: -1, Key: "g"})
	}
	// A is stopped within one heartbeat interval of the loss
	ts := tB + odd(time.Duration(rapid.Int64Range(20, int64(h)).Draw(t, "stop_after")))
	stop := Action{At: ts, Kind: ActStopCtx, Inst: 0, DeleteKey: rapid.IntRange(0, 5).Draw(t, "delete_key") > 0, WaitForDemote: rapid.Bool().Draw(t, "wait_for_demote")}
	if len(p.Timeline) == 2 && p.Timeline[1].Kind == ActStart && rapid.IntRange(0, 2).Draw(t, "loss_during_shutdown") == 0 {
		// ... or A still owns the record when its shutdown looks at it, and B's takeover lands between that
		// look and the delete that follows it (the delete request of A is slow)
		ts = tB
		stop.At, stop.DeleteKey = ts, true
		d := time.Duration(rapid.Int64Range(int64(time.Microsecond), int64(40*time.Millisecond)).Draw(t, "delete_lat"))
		p.Instances[0].Rules = append(p.Instances[0].Rules, OpRule{Kind: OpDelete, N: 0, SetLat: true, ReqLat: d, RespLat: 1})
		p.Timeline[1].At = ts + p.Instances[0].PromoteLinger + odd(time.Duration(rapid.Int64Range(8, int64(d)).Draw(t, "b_after_look")))
	}
	switch rapid.IntRange(0, 3).Draw(t, "stop_timeout") {
	case 0:
		stop.CtxMode, stop.CtxTimeout = "deadline", 3*time.Second+1
	case 1:
		stop.Timeout = 6*time.Second + 1
	}
	p.Timeline = append(p.Timeline, stop)
	switch rapid.IntRange(0, 3).Draw(t, "restart") {
	case 0:
	case 1:
		p.Timeline = append(p.Timeline, Action{At: ts + odd(time.Duration(rapid.Int64Range(int64(3*time.Second), int64(3*time.Second+3*h)).Draw(t, "restart_after"))), Kind: ActStart, Inst: 0})
	default:
		// restarted while the stop call may still be waiting
		p.Timeline = append(p.Timeline, Action{At: ts + odd(rapid.SampledFrom([]time.Duration{1, 1001, time.Millisecond, h / 4, time.Second}).Draw(t, "overlap_after")), Kind: ActStart, Inst: 0, Overlap: true})
	}
	p.Horizon = ts + 8*h + p.TTL + 3*time.Second
	for i := 0; i < rapid.IntRange(0, 3).Draw(t, "ndice"); i++ {
		p.Dice = append(p.Dice, rapid.SampledFrom([]float64{0, 0.999999, 0.5}).Draw(t, "dice"))
	}
	sortTimeline(p)
	return p
}

// GenStallPlan builds plans in which a library goroutine is descheduled for a while at one of the scheduling
// points (Plan.Stalls) - between two steps that are not atomic together - while the thing that must not
// happen in between is made to happen:
//   - start-vs-cancel: Start looks at the previous run (still live), and before it takes the election mutex
//     the caller's other goroutine cancels that run's context;
//   - double-adoption: two acquisitions of one instance are answered close together (the re-acquire shape)
//     and the first is held between its "do I lead already?" check and its adoption;
//   - heartbeat-loads: a leader that also follows the key (it acquired it as a follower) is held between its
//     leadership check and the load of the revision it refreshes against, while a higher-priority instance
//     takes the record over and the watcher records the successor's revision.
func GenStallPlan(t *rapid.T, profile string) *Plan {
	shape := rapid.IntRange(0, 4).Draw(t, "stall_shape")
	if v := os.Getenv("VERIF_STALL_SHAPE"); v != "" { // (development aid)
		shape = int(v[0] - '0')
	}
	switch shape {
	case 0:
		h := rapid.SampledFrom([]time.Duration{200 * time.Millisecond, time.Second}).Draw(t, "H")
		p := &Plan{Profile: profile + "/stall-start-vs-cancel", H: h, TTL: 3 * h, SnapEvery: odd(h/3 + 37*time.Microsecond)}
		p.Instances = []Inst{{ID: "A", Group: "g", Lat: []time.Duration{1, 3}, Promote: rapid.SampledFrom([]int{0, 1, 2}).Draw(t, "promote")}}
		p.Timeline = []Action{{At: 1, Kind: ActStart, Inst: 0}}
		if rapid.Bool().Draw(t, "other") {
			p.Instances = append(p.Instances, Inst{ID: "B", Group: "g", Lat: []time.Duration{3, 5}})
			p.Timeline = append(p.Timeline, Action{At: odd(h / 2), Kind: ActStart, Inst: 1})
		}
		t1 := odd(h + time.Duration(rapid.Int64Range(0, int64(2*h)).Draw(t, "t_restart")))
		d := time.Duration(rapid.Int64Range(int64(time.Microsecond), int64(20*time.Millisecond)).Draw(t, "stall"))
		p.Timeline = append(p.Timeline, Action{At: t1, Kind: ActStart, Inst: 0})
		if rapid.Bool().Draw(t, "cancel_inline") {
			// cancelled right there, and Start goes on at once: the goroutines the cancellation wakes come later
			p.Stalls = []Stall{{Inst: 0, Point: PointStartLookLock, N: 1, CancelRun: true}}
		} else {
			p.Stalls = []Stall{{Inst: 0, Point: PointStartLookLock, N: 1, D: d}}
			p.Timeline = append(p.Timeline, Action{At: t1 + odd(time.Duration(rapid.Int64Range(1, int64(d)).Draw(t, "cancel_after"))), Kind: ActCancelCtx, Inst: 0, NoWait: true, OnlyRunning: true})
		}
		if rapid.Bool().Draw(t, "stop_later") {
			p.Timeline = append(p.Timeline, Action{At: t1 + odd(4*h+p.TTL), Kind: ActStop, Inst: 0})
		}
		p.Horizon = t1 + 8*h + 2*p.TTL + 2*time.Second
		sortTimeline(p)
		return p
	case 1:
		p := GenReacquirePlan(t, profile)
		p.Profile = profile + "/stall-double-adoption"
		for j := rapid.IntRange(1, 3).Draw(t, "nstalls"); j > 0; j-- {
			p.Stalls = append(p.Stalls, Stall{Inst: rapid.IntRange(0, len(p.Instances)-1).Draw(t, "stall_inst"), Point: PointAcquireAdopt, N: rapid.IntRange(0, 4).Draw(t, "stall_n"),
				D: time.Duration(rapid.Int64Range(int64(time.Microsecond), int64(300*time.Millisecond)).Draw(t, "stall"))})
		}
		return p
	}
	if shape == 4 {
		// failed-acquisition-vs-adoption: the answer to run 1's Create is slow; the election is stopped and, while the stop
		// call is still waiting for that answer, started again; run 2's own Create is refused (the key holds run 1's
		// record), and its acquisition is held between "do I lead?" and settling as a follower while the slow
		// answer arrives and is adopted
		h := rapid.SampledFrom([]time.Duration{200 * time.Millisecond, 400 * time.Millisecond}).Draw(t, "H")
		p := &Plan{Profile: profile + "/stall-failed-acquisition-vs-adoption", H: h, TTL: 3 * h, SnapEvery: odd(h/3 + 47*time.Microsecond), Dice: []float64{0}}
		slow := time.Duration(rapid.Int64Range(int64(150*time.Millisecond), int64(2*h)).Draw(t, "slow_answer"))
		p.Instances = []Inst{{ID: "A", Group: "g", Lat: []time.Duration{1, 3}, Promote: rapid.SampledFrom([]int{0, 1, 2}).Draw(t, "promote"),
			Rules: []OpRule{{Kind: OpCreate, N: 0, SetLat: true, ReqLat: 1, RespLat: slow}}}}
		t1 := odd(time.Duration(rapid.Int64Range(int64(time.Millisecond), int64(slow/3)).Draw(t, "t_stop")))
		t2 := t1 + odd(time.Duration(rapid.Int64Range(int64(time.Millisecond), int64(slow/3)).Draw(t, "t_restart")))
		// (Stop waits for run 1's acquisition goroutine, i.e. for the slow answer; the restart comes from another
		// goroutine of the application during that wait)
		p.Timeline = []Action{{At: 1, Kind: ActStart, Inst: 0},
			{At: t1, Kind: ActStop, Inst: 0},
			{At: t2, Kind: ActStart, Inst: 0, Overlap: true}}
		p.Stalls = []Stall{{Inst: 0, Point: PointFailedFollow, N: rapid.IntRange(0, 1).Draw(t, "stall_n"), D: slow + time.Duration(rapid.Int64Range(int64(time.Millisecond), int64(h)).Draw(t, "stall"))}}
		if rapid.Bool().Draw(t, "second") {
			p.Instances = append(p.Instances, Inst{ID: "B", Group: "g", Lat: []time.Duration{5, 7}})
			p.Timeline = append(p.Timeline, Action{At: odd(h / 2), Kind: ActStart, Inst: 1})
		}
		p.Horizon = t2 + slow + 8*h + p.TTL + 2*time.Second
		sortTimeline(p)
		return p
	}
	if shape == 3 {
		// heartbeat-outlives-term: an iteration of the heartbeat loop is held, before it reads the election's
		// state or after its refresh was answered, for so long that the term ends (the record is deleted from
		// outside, the validation loop notices) and the same instance leads a new term when it goes on
		h := rapid.SampledFrom([]time.Duration{100 * time.Millisecond, 200 * time.Millisecond}).Draw(t, "H")
		p := &Plan{Profile: profile + "/stall-heartbeat-outlives-term", H: h, TTL: 3 * h, SnapEvery: odd(h/3 + 43*time.Microsecond), Dice: []float64{0}}
		p.Instances = []Inst{{ID: "A", Group: "g", Lat: []time.Duration{1, 3}, VI: h, Promote: rapid.SampledFrom([]int{0, 1}).Draw(t, "promote")}}
		if rapid.Bool().Draw(t, "health") {
			p.Instances[0].HasHealth = true
		}
		p.Timeline = []Action{{At: 1, Kind: ActStart, Inst: 0}}
		k := rapid.IntRange(1, 4).Draw(t, "tick")
		d := 2*time.Second + time.Duration(rapid.Int64Range(0, int64(time.Second)).Draw(t, "stall"))
		p.Stalls = []Stall{{Inst: 0, Point: rapid.SampledFrom([]string{PointHeartbeatSnap, PointHeartbeatAns}).Draw(t, "point"), N: k - 1, D: d}}
		tick := time.Duration(k) * h
		p.Timeline = append(p.Timeline, Action{At: odd(tick + time.Duration(rapid.Int64Range(int64(time.Millisecond), int64(h/2)).Draw(t, "del_after_tick"))), Kind: ActExtDelete, Inst: -1, Key: "g"})
		p.Horizon = tick + d + 8*h + p.TTL + 2*time.Second
		sortTimeline(p)
		return p
	}
	h := rapid.SampledFrom([]time.Duration{200 * time.Millisecond, time.Second}).Draw(t, "H")
	p := &Plan{Profile: profile + "/stall-heartbeat-loads", H: h, TTL: 3 * h, SnapEvery: odd(h/3 + 41*time.Microsecond), Dice: []float64{0}}
	p.Instances = []Inst{
		{ID: "C", Group: "g", Lat: []time.Duration{1, 3}},
		{ID: "A", Group: "g", Priority: 1, Lat: []time.Duration{1, 3}, VI: 3 * h, Promote: rapid.SampledFrom([]int{0, 1}).Draw(t, "promote")},
		{ID: "B", Group: "g", Priority: 2, Takeover: true, Lat: []time.Duration{3, 5}},
	}
	ts := odd(h / 2)
	p.Timeline = []Action{{At: 1, Kind: ActStart, Inst: 0}, {At: 11, Kind: ActStart, Inst: 1}, {At: ts, Kind: ActStopCtx, Inst: 0, DeleteKey: true}}
	// A acquires about 10ms (the round's minimal jitter, dice 0) after the delete; its k-th tick is k*H later
	k := rapid.IntRange(1, 4).Draw(t, "tick")
	d := h / 2
	p.Stalls = []Stall{{Inst: 1, Point: PointHeartbeatLoads, N: k - 1, D: d}}
	tick := ts + 10*time.Millisecond + time.Duration(k)*h
	p.Timeline = append(p.Timeline, Action{At: odd(tick + time.Duration(rapid.Int64Range(int64(time.Millisecond), int64(d-time.Millisecond)).Draw(t, "b_after_tick"))), Kind: ActStart, Inst: 2})
	p.Horizon = tick + 8*h + p.TTL + 2*time.Second
	sortTimeline(p)
	return p
}

// GenOldWatchLoopPlan builds the shape "a watch loop that outlives its run acts in the next one": follower F's
// periodic check is stuck in a Get for nine seconds; Stop gives up waiting for it after five; the leader hands
// the key over and F, started again, is elected at once - so its new run has no watch loop of its own. A
// higher-priority instance preempts F a few milliseconds before the old Get returns, and before F's next
// heartbeat: the old loop, whose watcher is still open, finds the event and its run's cancellation ready
// together, and when select picks the event it is the old loop that ends F's new term (OnDemote included).
func GenOldWatchLoopPlan(t *rapid.T, profile string) *Plan {
	h := time.Second
	p := &Plan{Profile: profile + "/old-watch-loop-outlives-its-run", H: h, TTL: 3 * h, SnapEvery: odd(h/3 + 59*time.Microsecond), Dice: []float64{0}}
	f := Inst{ID: "F", Group: "g", Priority: 1, Lat: []time.Duration{1, 3}, Promote: rapid.SampledFrom([]int{0, 1}).Draw(t, "promote"),
		Rules: []OpRule{{Kind: OpGet, N: 2, SetLat: true, ReqLat: 9 * time.Second, RespLat: 1}},
		// the events that pile up in the old watcher's channel while its loop is stuck (L's refreshes, the
		// hand-over, F's own record and refreshes: ordinals 2..13) are lost, so that the takeover is the first
		// thing the loop finds when it comes back - otherwise it would have to win a coin toss against its
		// run's cancellation for every stale event in front of it
		WatchDrop: []int{2, 3, 4, 5, 6, 7, 8, 9, 10, 11, 12, 13}}
	p.Instances = []Inst{{ID: "L", Group: "g", Priority: 1, Lat: []time.Duration{1, 3}}, f,
		{ID: "H", Group: "g", Priority: 2, Takeover: true, Lat: []time.Duration{3, 5}}}
	// F starts at 10ms: its periodic Gets are issued at 0.51s, 1.01s, 1.51s (the slow one, applied at 10.51s);
	// restarted at 7.5s it leads at once, with heartbeats at 8.5s, 9.5s, 10.5s, 11.5s
	tH := 10500*time.Millisecond + odd(time.Duration(rapid.Int64Range(int64(500*time.Microsecond), int64(9*time.Millisecond)).Draw(t, "takeover_at")))
	p.Timeline = []Action{{At: 1, Kind: ActStart, Inst: 0}, {At: 10 * time.Millisecond, Kind: ActStart, Inst: 1},
		{At: odd(2 * time.Second), Kind: ActStop, Inst: 1},
		{At: odd(7200 * time.Millisecond), Kind: ActStopCtx, Inst: 0, DeleteKey: true},
		{At: 7500 * time.Millisecond, Kind: ActStart, Inst: 1},
		{At: tH, Kind: ActStart, Inst: 2}}
	p.Horizon = 16 * time.Second
	sortTimeline(p)
	return p
}
