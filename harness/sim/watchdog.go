package sim

import (
	"fmt"
	"os"
	"regexp"
	"runtime"
	"strings"
	"sync"
	"sync/atomic"
	"time"
)

// The watchdog lives outside every bubble (real time). It recognises a case
// that no longer makes progress in virtual time although real time passes:
// a lock deadlock inside the library freezes the bubble (mutex waits are not
// "durably blocked"), a zero-latency spin never lets the bubble go idle.

var (
	progress    atomic.Int64 // bumped by every recorded event
	vclock      atomic.Int64 // last virtual time seen by the harness
	caseActive  atomic.Bool
	caseStarted atomic.Int64 // unix nanos (real)
	wdOnce      sync.Once
	// CurrentPlanPath is where the running case's plan was written (for the driver).
	stallBudget = 20 * time.Second
	caseCeiling = 45 * time.Second
)

func caseBegin() {
	wdOnce.Do(func() {
		if v := os.Getenv("VERIF_STALL_BUDGET"); v != "" {
			if d, err := time.ParseDuration(v); err == nil {
				stallBudget = d
			}
		}
		if v := os.Getenv("VERIF_CASE_CEILING"); v != "" {
			if d, err := time.ParseDuration(v); err == nil {
				caseCeiling = d
			}
		}
		go watchdog()
	})
	caseStarted.Store(time.Now().UnixNano())
	caseActive.Store(true)
}

func caseEnd() { caseActive.Store(false) }

func allStacks() string {
	buf := make([]byte, 1<<22)
	n := runtime.Stack(buf, true)
	return string(buf[:n])
}

var hdrRe = regexp.MustCompile(`^goroutine (\d+) \[([^\]]*)\]`)

type gInfo struct {
	id, state, stack string
	bubble, lib      bool
}

func parseStacks(dump string) []gInfo {
	var out []gInfo
	for _, g := range strings.Split(dump, "\n\n") {
		m := hdrRe.FindStringSubmatch(g)
		if m == nil {
			continue
		}
		out = append(out, gInfo{id: m[1], state: m[2], stack: g, bubble: strings.Contains(m[2], "synctest bubble"), lib: strings.Contains(g, libPrefix)})
	}
	return out
}

func watchdog() {
	lastP, lastV := int64(-1), int64(-1)
	lastChange := time.Now()
	for {
		time.Sleep(250 * time.Millisecond)
		if !caseActive.Load() {
			lastChange = time.Now()
			continue
		}
		p, v := progress.Load(), vclock.Load()
		// a case that is still running after caseCeiling of real time (cases take milliseconds)
		if time.Since(time.Unix(0, caseStarted.Load())) > caseCeiling {
			d := parseStacks(allStacks())
			verdict, detail := "inconclusive", fmt.Sprintf("case still running after %v of real time", caseCeiling)
			for _, g := range d {
				if !g.bubble || !g.lib {
					continue
				}
				if fn, n := deepestRepeat(g.stack); n >= 20 {
					verdict, detail = "recursion", fmt.Sprintf("library goroutine has %d nested frames of %s (unbounded recursion)", n, fn)
				}
			}
			fmt.Printf("VERIF-WATCHDOG: %s %s\n", verdict, detail)
			for _, g := range d {
				if g.bubble && g.lib {
					st := g.stack
					if len(st) > 3000 {
						st = st[:3000] + "\n..."
					}
					fmt.Println(st)
					fmt.Println()
				}
			}
			os.Stdout.Sync()
			if verdict == "recursion" {
				os.Exit(3)
			}
			os.Exit(4)
		}
		if v != lastV {
			lastV, lastP = v, p
			lastChange = time.Now()
			continue
		}
		// virtual time did not move
		if p != lastP {
			lastP = p
			// events still flow at one virtual instant: allow a while, then call it a spin
			if time.Since(lastChange) < stallBudget {
				continue
			}
		}
		if time.Since(lastChange) < stallBudget {
			continue
		}
		d1 := parseStacks(allStacks())
		time.Sleep(time.Second)
		d2 := parseStacks(allStacks())
		verdict, detail := judgeStall(d1, d2)
		fmt.Printf("VERIF-WATCHDOG: %s %s\n", verdict, detail)
		for _, g := range d2 {
			if g.bubble {
				fmt.Println(g.stack)
				fmt.Println()
			}
		}
		os.Stdout.Sync()
		if verdict == "deadlock" || verdict == "spin" {
			os.Exit(3)
		}
		os.Exit(4)
	}
}

// judgeStall: "deadlock" iff in both dumps the bubble goroutines and their
// states are identical, none is running/runnable, at least one with a library
// frame waits for a sync.Mutex / RWMutex, and none sleeps inside a harness
// callback entered from the library. "spin" iff a goroutine with library
// frames is running/runnable in both dumps. Otherwise "inconclusive".
func judgeStall(d1, d2 []gInfo) (string, string) {
	key := func(d []gInfo) string {
		var sb strings.Builder
		for _, g := range d {
			if g.bubble {
				sb.WriteString(g.id + ":" + g.state + ";")
			}
		}
		return sb.String()
	}
	mutexWait := ""
	runnable := false
	sleepingCallback := false
	for _, g := range d2 {
		if !g.bubble {
			continue
		}
		st := g.state
		if strings.HasPrefix(st, "running") || strings.HasPrefix(st, "runnable") {
			runnable = true
		}
		if g.lib && (strings.HasPrefix(st, "sync.Mutex.Lock") || strings.HasPrefix(st, "sync.RWMutex")) {
			mutexWait = firstLibFrame(g.stack)
		}
		if g.lib && strings.Contains(g.stack, "verif/harness/sim.") && strings.Index(g.stack, "verif/harness/sim.") < strings.Index(g.stack, libPrefix) {
			// a harness callback called from the library that is waiting for virtual time (a callback that
			// only waits for a channel - a blocking OnPromote waiting for its context - would not be woken
			// by the clock and does not count)
			// Only user callbacks count (OnPromote / OnDemote / HealthChecker / Metrics / Logger): the library
			// never holds one of its mutexes across a store operation (checked by reading the code; a
			// store operation that sleeps out its latency is the normal state of a frozen bubble).
			isCallback := strings.Contains(g.stack, ".registerCallbacks.func") || strings.Contains(g.stack, "sim.(*health).") ||
				strings.Contains(g.stack, "sim.(*metrics).") || strings.Contains(g.stack, "sim.(*logger).")
			if isCallback && (strings.HasPrefix(st, "sleep") || strings.Contains(g.stack, ".sleepI(") || strings.Contains(g.stack, ".sleepOrCtx(")) {
				sleepingCallback = true
			}
		}
	}
	if key(d1) == key(d2) && !runnable && mutexWait != "" && !sleepingCallback {
		return "deadlock", "library goroutine blocked on a mutex in " + mutexWait + " while every other bubble goroutine waits for virtual time"
	}
	if runnable {
		for _, g := range d2 {
			if g.bubble && g.lib && (strings.HasPrefix(g.state, "running") || strings.HasPrefix(g.state, "runnable")) {
				for _, h := range d1 {
					if h.id == g.id && (strings.HasPrefix(h.state, "running") || strings.HasPrefix(h.state, "runnable")) {
						return "spin", "library goroutine busy in " + firstLibFrame(g.stack) + " with virtual time standing still"
					}
				}
			}
		}
	}
	return "inconclusive", fmt.Sprintf("no virtual-time progress for %v (mutexWait=%q runnable=%v sleepingCallback=%v)", stallBudget, mutexWait, runnable, sleepingCallback)
}

// deepestRepeat returns the library function that occurs most often in one
// goroutine stack, and how often (runtime.Stack elides the middle of very deep
// stacks, so 50+50 frames are the most that can be seen).
func deepestRepeat(stack string) (string, int) {
	cnt := map[string]int{}
	best, bn := "", 0
	for _, l := range strings.Split(stack, "\n") {
		if !strings.HasPrefix(l, libPrefix) {
			continue
		}
		if i := strings.LastIndex(l, "("); i > 0 {
			l = l[:i]
		}
		l = strings.TrimPrefix(l, libPrefix)
		cnt[l]++
		if cnt[l] > bn {
			best, bn = l, cnt[l]
		}
	}
	return best, bn
}
