// Package sim runs the unmodified election library inside a testing/synctest
// bubble against the reference store (refkv), with every latency, fault,
// notification, API call and jitter draw taken from a Plan. One Plan = one
// complete execution; the Plan (JSON) is the replay file.
package sim

import (
	"encoding/json"
	"time"
)

const (
	OpCreate = "create"
	OpUpdate = "update"
	OpGet    = "get"
	OpDelete = "delete"
	OpWatch  = "watch"
)

// Fault kinds of an OpRule / Window.
const (
	FaultNone    = ""
	FaultErr     = "err"     // not applied, error returned after the response latency
	FaultTimeout = "timeout" // not applied, nats.ErrTimeout after HangFor (the client's request time-out)
	FaultAckLost = "acklost" // applied, but the caller gets nats.ErrTimeout after HangFor
)

// Error kinds for FaultErr.
const (
	ErrKTimeout      = "timeout"
	ErrKNoResponders = "noresponders"
	ErrKClosed       = "closed"
)

type Plan struct {
	Stalls []Stall `json:"stalls,omitempty"`
	Profile   string        `json:"profile"`
	H         time.Duration `json:"h"`
	TTL       time.Duration `json:"ttl"`
	Instances []Inst        `json:"instances"`
	Windows   []Window      `json:"windows,omitempty"`
	Timeline  []Action      `json:"timeline"`
	Dice      []float64     `json:"dice,omitempty"`
	Horizon   time.Duration `json:"horizon"`
	SnapEvery time.Duration `json:"snap_every"`
	// ExpirySlack: the store removes a record ExpirySlack later than its MaxAge says (nats-server's age timer
	// is rounded up to 250ms when re-armed, and file storage adds the same: measured by C14)
	ExpirySlack time.Duration `json:"expiry_slack,omitempty"`
	Hammers     []Hammer      `json:"hammers,omitempty"`
	HangFor     time.Duration `json:"hang_for,omitempty"` // duration of a timed-out request (default 5s, the JetStream default wait)
	Note        string        `json:"note,omitempty"`
	// NoQuiesce: the controller never calls synctest.Wait during the run (race-detector plans: since Go 1.25
	// the detector models synctest.Wait as synchronisation with every goroutine of the bubble, which would
	// hide races between activities separated by a controller step). No snapshots are taken then.
	NoQuiesce bool `json:"no_quiesce,omitempty"`
	// Lean (race-detector plans): the harness records nothing from library goroutines and takes no shared
	// lock or shared read-modify-write on their return paths - logger and metrics are no-ops, callbacks are
	// not recorded, a store operation returns to the library without touching shared harness state, API
	// hammers do not synchronise with each other. Every such lock would be a happens-before edge between
	// library goroutines that hides their unsynchronised accesses from the detector.
	Lean bool `json:"lean,omitempty"`
	// AllowUncleanRestart lets a plan Start an election object again after a stop call that returned while
	// the object's goroutines were still running (regression plans of the known WaitGroup-reuse finding).
	AllowUncleanRestart bool `json:"allow_unclean_restart,omitempty"` // (default behaviour now; kept for old replay files)
	// LogRules: actions fired at the library's own log lines (every significant step of the library logs, so
	// this places stops, restarts, notifications ... between any two steps, also inside its critical
	// sections).
	LogRules []LogRule `json:"log_rules,omitempty"`
	// Yields: at the k-th call of a library goroutine into the logger or the metrics recorder the harness
	// yields the processor Yields[k % len] times (runtime.Gosched): other runnable goroutines get to run at
	// that point, which permutes the order of steps that fall into the same virtual instant.
	Yields []uint8 `json:"yields,omitempty"`
	// PlainDelete: the store offered to the elections has no revision-checked delete (a custom KeyValue
	// implementation); the library's DeleteKey shutdown then looks and deletes in two steps.
	PlainDelete bool `json:"plain_delete,omitempty"`
	// CleanRestartsOnly: an object whose stop call failed or gave up waiting is restarted as a new election.
	CleanRestartsOnly bool `json:"clean_restarts_only,omitempty"`
}

type Inst struct {
	ID        string        `json:"id"`
	Group     string        `json:"group"`
	Priority  int           `json:"priority,omitempty"`
	Takeover  bool          `json:"takeover,omitempty"`
	VI        time.Duration `json:"vi,omitempty"`
	Grace     time.Duration `json:"grace,omitempty"`
	MCF       int           `json:"mcf,omitempty"`
	Monitored bool          `json:"monitored,omitempty"`
	HasHealth bool          `json:"has_health,omitempty"`
	Health    []int         `json:"health,omitempty"`  // per check: 0 healthy, 1 unhealthy, 2 slow then healthy, 3 slow then unhealthy; afterwards healthy
	Promote   int           `json:"promote,omitempty"` // 0 return at once, 1 block until ctx done, 2 work in steps polling ctx
	DemoteDur time.Duration `json:"demote_dur,omitempty"`
	// PromoteLinger: how long the OnPromote callback (modes 1 and 2) takes to wind down after its context
	// was cancelled; a stop call's wait for the run's goroutines lasts that long
	PromoteLinger time.Duration `json:"promote_linger,omitempty"`
	NoMetrics bool          `json:"no_metrics,omitempty"`
	// SlowWinAnswer > 0: the answer to this instance's SlowWinN-th Create that the store applies successfully
	// (0-based) takes that long - the write is in the store at once, the writer learns of it late
	SlowWinAnswer time.Duration `json:"slow_win_answer,omitempty"`
	SlowWinN      int           `json:"slow_win_n,omitempty"`
	// CorrID: the contexts handed to Start carry a "correlation_id" value (the library's documented way to
	// tag its log lines)
	CorrID bool `json:"corr_id,omitempty"`

	Lat          []time.Duration `json:"lat"` // request/response latencies, consumed round-robin by this instance's store operations
	Rules        []OpRule        `json:"rules,omitempty"`
	WatchDelay   []time.Duration `json:"watch_delay,omitempty"`    // per delivered event, round-robin; FIFO is preserved
	WatchDrop    []int           `json:"watch_drop,omitempty"`     // ordinals (per instance, over all its watchers) of events that are lost
	DropAll      bool            `json:"drop_all,omitempty"`       // every non-initial event is lost
	WatchFail    int             `json:"watch_fail,omitempty"`     // the first n Watch() calls fail
	WatchFailErr string          `json:"watch_fail_err,omitempty"` // "" time-out | auth | invalid | bucket: what the failing Watch() calls return
}

type OpRule struct {
	Kind    string        `json:"kind"`
	N       int           `json:"n"` // n-th operation of that kind by this instance, 0-based
	ReqLat  time.Duration `json:"req_lat,omitempty"`
	RespLat time.Duration `json:"resp_lat,omitempty"`
	SetLat  bool          `json:"set_lat,omitempty"`
	Fault   string        `json:"fault,omitempty"`
	ErrKind string        `json:"err_kind,omitempty"`
	Trigger *Trigger      `json:"trigger,omitempty"`
}

// Trigger fires an action when the operation reaches a phase:
// "issued" (before the request latency), "applied" (just after the store
// applied it), "returning" (just before the caller gets the answer).
type Trigger struct {
	Phase  string        `json:"phase"`
	Delay  time.Duration `json:"delay,omitempty"`
	Action Action        `json:"action"`
	// Follow is a second action fired FollowDelay after the first one was fired (e.g. Stop, then Start
	// again while the operation that triggered the Stop is still in flight).
	Follow      *Action       `json:"follow,omitempty"`
	FollowDelay time.Duration `json:"follow_delay,omitempty"`
}

// Window: the instance cannot reach the store in [From, To).
type Window struct {
	Inst    int           `json:"inst"`
	From    time.Duration `json:"from"`
	To      time.Duration `json:"to"`   // 0 = for ever
	Mode    string        `json:"mode"` // FaultErr (fast ErrKind) | FaultTimeout | FaultAckLost
	ErrKind string        `json:"err_kind,omitempty"`
}

const (
	ActStart      = "start"
	ActStop       = "stop"
	ActStopCtx    = "stopctx"
	ActDisconnect = "disconnect"
	ActReconnect  = "reconnect"
	ActClosed     = "closed"
	ActExtPut     = "extput"
	ActExtDelete  = "extdel"
	ActProbe      = "probe"       // ValidateToken
	ActProbeDem   = "probedemote" // ValidateTokenOrDemote
	ActSetHandler = "sethandler"  // re-register the callbacks (C20)
	ActCancelCtx  = "cancelctx"   // cancel the context that was passed to the object's last Start (no Stop call)
	ActCloseWatch = "closewatch"  // the store closes the update channels of the instance's open watchers (subscription closed)
)

type Action struct {
	At   time.Duration `json:"at"`
	Kind string        `json:"kind"`
	Inst int           `json:"inst"`

	// start
	NewObject bool `json:"new_object,omitempty"`
	// Overlap (start): issued even while a stop call on the same object has not returned yet (another
	// goroutine of the application restarts the election while the first is still inside Stop)
	Overlap bool `json:"overlap,omitempty"`
	// OnlyRunning (cancelctx): only the context of the run that is under way is cancelled, not the contexts of
	// Start calls that have not returned yet (the caller cancels the old run while it starts the next)
	OnlyRunning bool `json:"only_running,omitempty"`

	// cancelctx: do not wait for the election to have stopped (the action is then only the cancellation)
	NoWait bool `json:"no_wait,omitempty"`
	// cancelctx with NoWait: the same goroutine calls Start again right after the cancellation
	ThenStart bool `json:"then_start,omitempty"`
	// ... or calls Stop right after the cancellation (cancel(); election.Stop())
	ThenStop bool `json:"then_stop,omitempty"`
	// cancelctx (timeline actions only): the Start context ends because its deadline passes at At
	// (context.DeadlineExceeded), not by an explicit cancel()
	ByDeadline bool `json:"by_deadline,omitempty"`

	// disconnect / reconnect / closed: notifications delivered back to back behind this one
	Then []string `json:"then,omitempty"`

	// stopctx
	DeleteKey     bool          `json:"delete_key,omitempty"`
	WaitForDemote bool          `json:"wait_for_demote,omitempty"`
	Timeout       time.Duration `json:"timeout,omitempty"`

	// stopctx / probe: context
	CtxMode    string        `json:"ctx_mode,omitempty"` // "" background | "cancelled" | "deadline" | "cancel_after"
	CtxTimeout time.Duration `json:"ctx_timeout,omitempty"`

	// extput / extdel
	Key   string `json:"key,omitempty"`
	Value []byte `json:"value,omitempty"`
	Desc  string `json:"desc,omitempty"` // descriptor of the written value (C04/C13), for humans and oracles
}

func (p *Plan) JSON() []byte {
	b, _ := json.MarshalIndent(p, "", " ")
	return b
}

func (p *Plan) Groups() []string {
	seen := map[string]bool{}
	var gs []string
	for _, in := range p.Instances {
		if !seen[in.Group] {
			seen[in.Group] = true
			gs = append(gs, in.Group)
		}
	}
	return gs
}

// HeartbeatTimeout is the library's per-heartbeat operation time-out: max(H/2, 1s).
func (p *Plan) HeartbeatTimeout() time.Duration {
	t := p.H / 2
	if t < time.Second {
		t = time.Second
	}
	return t
}

func (p *Plan) hangFor() time.Duration {
	if p.HangFor > 0 {
		return p.HangFor
	}
	return 5 * time.Second
}

// Stall: the library goroutine of instance Inst that reaches scheduling point Point for the N-th time (0-based)
// is descheduled there for D of virtual time. The points sit between two steps of the library that are not
// atomic together (inserted by the build-time overlay, see ./check POINTS); no lock is held at any of them.
type Stall struct {
	Inst  int           `json:"inst"`
	Point string        `json:"point"`
	N     int           `json:"n"`
	D     time.Duration `json:"d"`
	// CancelRun: at that point, before any stall, the context of the instance's current run is cancelled on
	// this very goroutine (the goroutines that cancellation wakes have not run yet when the library goes on)
	CancelRun bool `json:"cancel_run,omitempty"`
}

const (
	PointStartLookLock  = "start-between-look-and-lock"
	PointAcquireAdopt   = "acquire-between-check-and-adoption"
	PointHeartbeatLoads = "heartbeat-between-leader-check-and-revision-load"
	PointHeartbeatSnap  = "heartbeat-before-state-snapshot"
	PointFailedFollow   = "failed-acquisition-between-look-and-follow"
	PointHeartbeatAns   = "heartbeat-after-update-answer"
)

// Hammer: N concurrent caller goroutines that issue API calls on one instance
// during [From, To), pausing Gap of virtual time between calls (C20).
type Hammer struct {
	Inst  int           `json:"inst"`
	From  time.Duration `json:"from"`
	To    time.Duration `json:"to"`
	N     int           `json:"n"`
	Gap   time.Duration `json:"gap"`
	Calls []string      `json:"calls"` // isleader leaderid token status validate validateordemote register
}

// StoreTTL is how long the simulated store keeps a message: the bucket's MaxAge plus the plan's expiry slack.
func (p *Plan) StoreTTL() time.Duration {
	if p.TTL <= 0 {
		return p.TTL
	}
	return p.TTL + p.ExpirySlack
}

// LogRule: when instance Inst logs message Msg for the N-th time (0-based), fire Action and yield the
// processor so that the action runs right there - to completion, or until it needs a lock the logging
// goroutine holds. (The logger cannot take virtual time instead: a goroutine waiting for a sync.Mutex is not
// durably blocked, so the bubble's clock would stand still while the action waits for the election mutex.)
type LogRule struct {
	Inst   int    `json:"inst"`
	Msg    string `json:"msg"`
	N      int    `json:"n"`
	Action Action `json:"action"`
}

// LogMessages: the messages the library logs (dictionary for generated LogRules).
var LogMessages = []string{"acquire_success", "acquire_failed", "acquire_retry", "acquire_failed_max_retries", "attempting_acquire_with_retry",
	"state_transition", "leader_promoted", "leader_demoted", "election_started", "election_stopped", "watch_started", "watch_failed",
	"watch_event_key_empty", "watch_event_key_deleted", "watch_closed", "leader_changed", "leader_changed_periodic_check",
	"key_not_found_triggering_reelection", "key_empty_triggering_reelection", "leadership_lost_via_watcher", "leadership_taken_over",
	"priority_takeover_opportunity", "priority_takeover_success", "priority_takeover_failed", "heartbeat_failed", "heartbeat_recovered",
	"health_check_failed", "health_check_recovered", "token_validation_failed", "token_validation_recovered",
	"demoting_due_to_heartbeat_failure", "demoting_due_to_validation_failure", "demoting_due_to_health_check_failure",
	"demoting_due_to_connection_loss", "demoting_due_to_reconnect_verification_failure", "connection_disconnected", "connection_reconnected",
	"connection_reconnected_before_grace_period", "verifying_leadership_after_reconnect", "reconnect_verification_success",
	"reconnect_verification_failed", "key_deleted", "key_deletion_failed", "shutdown_timeout", "shutdown_cancelled"}
