package sim

import (
	"fmt"
	"time"
)

// OracleC03: a deposed or cut-off leader steps down within a bounded time.
//
// Clause 1 (record changed underneath at t_c, store answers): claim down and
// OnDemote entered by t_c + H + 2T, and no later than the completion of the
// first heartbeat attempt issued after t_c.
// Clause 2 (refreshes keep failing): claim down and OnDemote entered by the
// completion of the third consecutive failed attempt, within 3H + 3T of the
// start of the last successful refresh; never demoted by the heartbeat
// mechanism after fewer than three failures when all of them are transient.
func OracleC03(tr *Trace) Verdict {
	p := tr.Plan
	v := Verdict{Premise: true}
	T := p.HeartbeatTimeout()
	H := p.H
	ci := tr.causes()
	claims := tr.Claims()
	demoteAt := func(obj, afterSeq int) (time.Duration, bool) {
		for _, cb := range tr.CBs {
			if cb.Obj == obj && cb.Kind == "demote-enter" && cb.Seq > afterSeq {
				return cb.T, true
			}
		}
		return 0, false
	}
	for _, c := range claims {
		if c.FromT >= tr.End {
			continue
		}
		id := tr.ID(c.Inst)
		who := fmt.Sprintf("%s#%d", id, c.Obj)
		key := p.Instances[c.Inst].Group
		stopSeq, stopAPI := ci.firstStopAfter(c.Obj, c.FromSeq)
		stopT := tr.End
		if stopAPI != nil {
			stopT = stopAPI.CallT
		}
		// heartbeat attempts of this term, in order
		var hb []*OpRec
		for _, op := range tr.Ops {
			if op.Obj == c.Obj && op.Kind == OpUpdate && op.IssueSeq > c.FromSeq && (c.ToSeq < 0 || op.IssueSeq < c.ToSeq) && op.IssueSeq < stopSeq {
				hb = append(hb, op)
			}
		}
		completion := func(op *OpRec) time.Duration {
			if op.ReturnSeq < 0 || op.ReturnT > op.IssueT+T {
				return op.IssueT + T
			}
			return op.ReturnT
		}
		failed := func(op *OpRec) bool {
			return op.Err != "" || op.ReturnSeq < 0 || op.ReturnT-op.IssueT > T
		}
		// ---- clause 1: the record is changed underneath by somebody else
		for _, op := range tr.Ops {
			if !op.Applied || op.Key != key || op.Kind == OpGet || op.Kind == OpWatch || op.Obj == c.Obj {
				continue
			}
			if op.ApplySeq < c.FromSeq || (c.ToSeq >= 0 && op.ApplySeq > c.ToSeq) || op.ApplySeq > stopSeq {
				continue
			}
			if op.PrevLive == nil || op.PrevLive.Actor != id {
				continue
			}
			if p.instFaulted(c.Inst) {
				break // "store still answers" premise
			}
			tc := op.ApplyT
			v.Classes = append(v.Classes, "clause1:record-"+map[bool]string{true: "deleted", false: "replaced"}[op.Kind == OpDelete])
			v.Nontrivial = true
			bound := tc + H + 2*T
			// structural bound: the first heartbeat attempt issued after the change
			var first *OpRec
			for _, u := range hb {
				if u.IssueSeq > op.ApplySeq {
					first = u
					break
				}
			}
			if first != nil && completion(first) < bound {
				bound = completion(first)
			}
			if bound >= stopT || bound >= tr.End {
				break
			}
			down := c.ToSeq >= 0 && c.ToT <= bound
			dT, dOK := demoteAt(c.Obj, c.FromSeq)
			if !down {
				v.Viols = append(v.Viols, Viol{At: bound, Sig: "C03 deposed-leader-still-claims-after-next-heartbeat",
					Msg: fmt.Sprintf("%s: its record was %s at %v by %s; it must stop claiming by %v (completion of its next heartbeat attempt / t_c+H+2T) but IsLeader() stays true until %v", who, map[bool]string{true: "deleted", false: "replaced"}[op.Kind == OpDelete], tc, op.Actor, bound, c.ToT)})
			} else if !dOK || dT > bound {
				v.Viols = append(v.Viols, Viol{At: bound, Sig: "C03 deposed-leader-no-ondemote-in-time cause=" + ci.CauseOf(c.Down),
					Msg: fmt.Sprintf("%s: its record was changed at %v; its claim went down at %v (%s) but OnDemote was not entered by %v", who, tc, c.ToT, ci.CauseOf(c.Down), bound)})
			}
			break
		}
		// ---- clause 2: refreshes keep failing
		run := 0
		var lastOK time.Duration = c.FromT
		lastOKSet := false
		allTransient := true
		for i, u := range hb {
			if !failed(u) {
				run, allTransient = 0, true
				lastOK, lastOKSet = u.IssueT, true
				continue
			}
			run++
			if u.ErrIsConflict {
				allTransient = false
			}
			_ = i
			if run == 3 {
				v.Classes = append(v.Classes, "clause2:three-consecutive-failures")
				v.Nontrivial = true
				bound := completion(u)
				b2 := lastOK + 3*H + 3*T
				if !lastOKSet {
					// no successful refresh yet in this term: the acquisition write is the last successful one
					b2 = c.FromT + 3*H + 3*T
				}
				if b2 < bound {
					// the statement's absolute bound is the tighter one only when ticks were skipped; report both
					bound = max(bound, b2)
				}
				if bound >= stopT || bound >= tr.End {
					break
				}
				down := c.ToSeq >= 0 && c.ToT <= bound
				dT, dOK := demoteAt(c.Obj, c.FromSeq)
				if !down {
					v.Viols = append(v.Viols, Viol{At: bound, Sig: "C03 leader-still-claims-after-third-failed-heartbeat",
						Msg: fmt.Sprintf("%s: three consecutive heartbeat attempts failed (third completed at %v, last successful refresh started at %v); it must stop claiming by %v but IsLeader() stays true until %v", who, completion(u), lastOK, bound, c.ToT)})
				} else if !dOK || dT > bound {
					v.Viols = append(v.Viols, Viol{At: bound, Sig: "C03 no-ondemote-after-third-failed-heartbeat cause=" + ci.CauseOf(c.Down),
						Msg: fmt.Sprintf("%s: claim down at %v after three failed heartbeats but OnDemote not entered by %v", who, c.ToT, bound)})
				}
				break
			}
		}
		// ---- clause 2, absolute form: the store becomes unreachable for this instance for good (or for longer
		// than the bound): whatever the heartbeat loop does or does not attempt, the claim must be down within
		// 3H + 3T of the start of the last successful refresh
		unhealthyTicks := false
		for _, h := range p.Instances[c.Inst].Health {
			if h == 1 || h == 3 || h == 5 {
				unhealthyTicks = true // such ticks make no attempt at all: only the count-based form above applies
			}
		}
		for _, w := range p.Windows {
			if w.Inst != c.Inst || w.From <= c.FromT || (c.ToSeq >= 0 && w.From >= c.ToT) || unhealthyTicks {
				continue
			}
			last := c.FromT
			for _, u := range hb {
				if !failed(u) && u.IssueT < w.From && u.ReturnT <= w.From+T {
					last = u.IssueT
				}
			}
			deadline := last + 3*H + 3*T
			if w.To != 0 && w.To < deadline+H {
				continue
			}
			if deadline >= stopT || deadline >= tr.End {
				continue
			}
			v.Classes = append(v.Classes, "clause2:cut-off-for-longer-than-the-bound")
			v.Nontrivial = true
			if c.ToSeq < 0 || c.ToT > deadline {
				v.Viols = append(v.Viols, Viol{At: deadline, Sig: "C03 cut-off-leader-still-claims-after-3H+3T",
					Msg: fmt.Sprintf("%s: the store is unreachable for it from %v on; its last successful refresh started at %v, so it must stop claiming by %v (3H+3T), but IsLeader() stays true until %v", who, w.From, last, deadline, c.ToT)})
			} else if dT, ok := demoteAt(c.Obj, c.FromSeq); !ok || dT > deadline {
				v.Viols = append(v.Viols, Viol{At: deadline, Sig: "C03 cut-off-leader-no-ondemote-within-3H+3T", Msg: fmt.Sprintf("%s: claim down at %v but OnDemote not entered by %v", who, c.ToT, deadline)})
			}
			break
		}
		// never demoted by the heartbeat mechanism after fewer than three transient failures
		if c.ToSeq >= 0 && c.ToT < tr.End && ci.CauseOf(c.Down) == CauseHeartbeat {
			n, perm := 0, false
			for j := len(hb) - 1; j >= 0; j-- {
				u := hb[j]
				if u.IssueSeq > c.ToSeq {
					continue
				}
				if !failed(u) {
					break
				}
				n++
				if u.Err != "" && u.ErrIsConflict && u.ReturnT-u.IssueT <= T {
					perm = true
				}
			}
			_ = allTransient
			if n < 3 && !perm {
				v.Viols = append(v.Viols, Viol{At: c.ToT, Sig: fmt.Sprintf("C03 heartbeat-demotion-after-%d-transient-failures", n),
					Msg: fmt.Sprintf("%s was demoted by the heartbeat mechanism at %v after only %d consecutive failed attempt(s), none of them a revision conflict", who, c.ToT, n)})
			}
			if perm {
				v.Classes = append(v.Classes, "heartbeat-demotion-on-conflict")
			} else {
				v.Classes = append(v.Classes, "heartbeat-demotion-after-3-transient")
			}
		}
	}
	sortViols(v.Viols)
	return v
}
