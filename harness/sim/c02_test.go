package sim

import (
	"testing"

	"pgregory.net/rapid"
)

var knobsFaultFree = Knobs{MinInst: 1, MaxInst: 5, LatFrac: 0.2499, WatchDelayH: 4, Stops: true, StopPhases: true, Promote: true, DemoteDur: true, LongH: true, NewObjects: true, TakeoverTies: true}

func TestC02(t *testing.T) {
	RunCheck(t, CheckSpec{
		Prop: "C02",
		Rule: "fault-free plans (1-5 instances, (H,TTL) lattice, per-direction latencies < H/4 biased to the edges, watch delays up to 4H, start/Stop/StopWithContext(all options)/restart/new-object actions at generated times and at phases of in-flight store operations, blocking promote callbacks, in half of the plans one common priority with takeover enabled for most instances); oracle: <=1 claimant at every flag change and every claim interval covered by the claimant's own live record with its token. Non-trivial = (>=2 instances and >=2 terms) or a stop placed inside an in-flight store operation; distinct by plan hash.",
		Gen: MixShapes(func(t *rapid.T) *Plan { return GenPlan(t, "faultfree", knobsFaultFree) },
			func(t *rapid.T) *Plan { return GenRestartInFlightPlan(t, "faultfree") }),
		Oracle: OracleC02,
	})
}
