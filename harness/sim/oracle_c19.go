package sim

import (
	"fmt"
)

// OracleC19: the promotion context lives exactly as long as the term.
func OracleC19(tr *Trace) Verdict {
	v := Verdict{Premise: true}
	ci := tr.causes()
	claims := tr.Claims()
	// term (callback) -> claim: the k-th promotion of an object belongs to its k-th claim
	claimsByObj := map[int][]*Claim{}
	for _, c := range claims {
		claimsByObj[c.Obj] = append(claimsByObj[c.Obj], c)
	}
	termClaim := map[int]*Claim{}
	nth := map[int]int{}
	for _, t := range tr.Terms {
		if cl := claimsByObj[t.Obj]; nth[t.Obj] < len(cl) && cl[nth[t.Obj]].Token == t.Token {
			termClaim[t.ID] = cl[nth[t.Obj]]
		}
		nth[t.Obj]++
	}
	reported := map[int]bool{}
	for _, s := range tr.Snaps {
		if s.T > tr.End {
			break
		}
		for _, st := range s.Terms {
			if reported[st.Term] {
				continue
			}
			c := termClaim[st.Term]
			if c == nil {
				continue
			}
			who := fmt.Sprintf("%s#%d", tr.ID(st.Inst), st.Obj)
			ended := c.ToSeq >= 0 && c.ToSeq < s.Seq
			if !ended {
				stopSeq, stopAPI := ci.firstStopAfter(c.Obj, c.FromSeq)
				if stopSeq < s.Seq {
					ended = true
					// (a Start context that ends by its deadline: the harness records the call 1ns before the
					// deadline passes - until then nothing has happened)
					if stopAPI != nil && stopAPI.Action != nil && stopAPI.Action.ByDeadline && s.T <= stopAPI.CallT+1 {
						ended = false
					}
				}
			}
			var si *SnapInst
			for i := range s.Insts {
				if s.Insts[i].Obj == st.Obj {
					si = &s.Insts[i]
				}
			}
			if !ended && si != nil && si.IsLeader && si.Token == st.Token && st.CtxDone {
				reported[st.Term] = true
				v.Viols = append(v.Viols, Viol{At: s.T, Sig: "C19 promote-ctx-cancelled-while-leading",
					Msg: fmt.Sprintf("%s at %v still leads the term of token %.8s (began %v) and its OnPromote callback is running, but the context it received is already done", who, s.T, st.Token, c.FromT)})
			}
			if ended && !st.CtxDone {
				reported[st.Term] = true
				cause := CauseStop
				if c.Down != nil {
					cause = ci.CauseOf(c.Down)
				}
				v.Viols = append(v.Viols, Viol{At: s.T, Sig: "C19 promote-ctx-not-cancelled-after-term-end cause=" + cause,
					Msg: fmt.Sprintf("%s: the term of token %.8s (began %v) ended at %v by %s, but at the quiescent point %v the context handed to its still-running OnPromote callback is not cancelled", who, st.Token, c.FromT, c.ToT, cause, s.T)})
			}
		}
	}
	// a term must not begin with a dead context: OnPromote entered with a context that is already done,
	// although the term it announces goes on beyond that instant and no stop call (or cancellation of the
	// Start context) has begun since the claim went up
	for _, t := range tr.Terms {
		c := termClaim[t.ID]
		if !t.CtxDoneAtEntry || c == nil || t.EnterT >= tr.End {
			continue
		}
		if c.ToSeq >= 0 && c.ToT <= t.EnterT {
			continue // the term ended before (or in the same instant as) the asynchronous callback ran
		}
		stopped := false
		for _, a := range tr.APIs {
			if a.Obj == t.Obj && (a.Call == "Stop" || a.Call == "StopWithContext" || a.Call == "CancelStartContext") && a.CallSeq > c.FromSeq && a.CallSeq < t.EnterSeq {
				stopped = true
			}
		}
		if stopped {
			continue
		}
		v.Viols = append(v.Viols, Viol{At: t.EnterT, Sig: "C19 promote-ctx-done-at-term-start",
			Msg: fmt.Sprintf("%s#%d: OnPromote for the term of token %.8s entered at %v with a context that is already done, yet the instance leads that term until %v and no stop call had begun", tr.ID(t.Inst), t.Obj, t.Token, t.EnterT, c.ToT)})
		break
	}
	// ... nor may the context die in the middle of the term: a callback that waits for its context returned
	// because the context was done (not at teardown), yet the instance goes on leading that very term beyond
	// that instant and no stop call (or cancellation of the Start context) had begun
	for _, t := range tr.Terms {
		c := termClaim[t.ID]
		if c == nil || !t.Exited || t.ExitedByTeardown || !t.CtxDoneAtExit || t.CtxDoneAtEntry || t.ExitT >= tr.End || tr.Plan.Instances[t.Inst].Promote == 0 {
			continue
		}
		if c.ToSeq >= 0 && c.ToT <= t.ExitT {
			continue
		}
		stopped := false
		for _, a := range tr.APIs {
			if a.Obj == t.Obj && (a.Call == "Stop" || a.Call == "StopWithContext" || a.Call == "CancelStartContext") && a.CallSeq > c.FromSeq && a.CallSeq < t.ExitSeq {
				stopped = true
			}
		}
		if stopped {
			continue
		}
		v.Viols = append(v.Viols, Viol{At: t.ExitT, Sig: "C19 promote-ctx-cancelled-while-leading",
			Msg: fmt.Sprintf("%s#%d: the context handed to OnPromote for the term of token %.8s (began %v) was done at %v (the callback waiting for it returned), yet the instance goes on leading that term until %v and no stop call had begun", tr.ID(t.Inst), t.Obj, t.Token, c.FromT, t.ExitT, c.ToT)})
		break
	}
	// when OnDemote is entered the term it reports has ended: its context must be done already
	// (work bound to the context must not outlive the leadership, and OnDemote typically waits for that work)
	failed := tr.failedStops()
	for _, cb := range tr.CBs {
		if cb.Kind != "demote-enter" || cb.T >= tr.End || cb.TermCtxDone != 0 {
			continue
		}
		if fs, ok := failed[cb.Obj]; ok && cb.Seq > fs {
			continue
		}
		v.Viols = append(v.Viols, Viol{At: cb.T, Sig: "C19 promote-ctx-still-live-when-ondemote-runs",
			Msg: fmt.Sprintf("%s#%d: OnDemote entered at %v, but the context handed to the OnPromote callback of the term it ends is not cancelled yet", tr.ID(cb.Inst), cb.Obj, cb.T)})
		break
	}
	causes := map[string]bool{}
	for _, t := range tr.Terms {
		c := termClaim[t.ID]
		if c == nil || c.ToSeq < 0 || c.ToT >= tr.End || tr.Plan.Instances[t.Inst].Promote == 0 {
			continue
		}
		cause := ci.CauseOf(c.Down)
		causes[cause] = true
		if cause != CauseStop {
			v.Nontrivial = true
		}
	}
	for c := range causes {
		v.Classes = append(v.Classes, "blocking-callback-term-ended-by="+c)
	}
	sortViols(v.Viols)
	return v
}
