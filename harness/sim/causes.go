package sim

// Attribution of a claim-down edge to the mechanism that caused it. Logger
// text is auxiliary (DESIGN.md section 5 rule 5): it only names the mechanism
// in signatures and selects which bound applies; violations rest on edges,
// callbacks and the store log.

const (
	CauseStop       = "stop"
	CauseHeartbeat  = "heartbeat-failure"
	CauseHealth     = "health"
	CauseValidation = "validation"
	CauseGrace      = "grace-expiry"
	CauseReconnect  = "reconnect-verification"
	CauseWatcher    = "watcher"
	CauseRetryExh   = "acquire-retry-exhaustion"
	CauseStartFail  = "start-acquire-failed"
	CauseUnknown    = "unknown"
)

var causeByMsg = map[string]string{
	"demoting_due_to_heartbeat_failure":              CauseHeartbeat,
	"demoting_due_to_health_check_failure":           CauseHealth,
	"demoting_due_to_validation_failure":             CauseValidation,
	"demoting_due_to_connection_loss":                CauseGrace,
	"demoting_due_to_reconnect_verification_failure": CauseReconnect,
	"leadership_lost_via_watcher":                    CauseWatcher,
	"acquire_failed_max_retries":                     CauseRetryExh,
	"acquire_failed":                                 CauseStartFail,
}

type causeIndex struct {
	logsByObj map[int][]*LogRec
	stops     map[int][]*APIRec
}

func (tr *Trace) causes() *causeIndex {
	ci := &causeIndex{logsByObj: map[int][]*LogRec{}, stops: map[int][]*APIRec{}}
	for _, l := range tr.Logs {
		ci.logsByObj[l.Obj] = append(ci.logsByObj[l.Obj], l)
	}
	for _, a := range tr.APIs {
		if a.Call == "Stop" || a.Call == "StopWithContext" || a.Call == "CancelStartContext" {
			ci.stops[a.Obj] = append(ci.stops[a.Obj], a)
		}
	}
	return ci
}

// CauseOf names the mechanism behind a flag edge (normally a claim-down edge).
func (ci *causeIndex) CauseOf(e *Edge) string {
	for _, a := range ci.stops[e.Obj] {
		if a.CallSeq < e.Seq && (a.RetSeq < 0 || a.RetSeq > e.Seq) {
			// inside a stop call: the stop's own critical section runs in the caller's goroutine
			// and is the first thing the call does
			isFirst := true
			for _, l := range ci.logsByObj[e.Obj] {
				if l.Seq > a.CallSeq && l.Seq < e.Seq && l.Gid == e.Gid {
					isFirst = false
				}
			}
			if isFirst {
				return CauseStop
			}
		}
	}
	var last *LogRec
	for _, l := range ci.logsByObj[e.Obj] {
		if l.Seq >= e.Seq {
			break
		}
		if l.Gid == e.Gid {
			last = l
		}
	}
	if last != nil {
		if c, ok := causeByMsg[last.Msg]; ok {
			return c
		}
	}
	return CauseUnknown
}

// firstStopAfter returns the sequence number and time of the first stop call
// on obj that begins after seq (or a huge value).
func (ci *causeIndex) firstStopAfter(obj, seq int) (int, *APIRec) {
	for _, a := range ci.stops[obj] {
		if a.CallSeq > seq {
			return a.CallSeq, a
		}
	}
	return 1 << 60, nil
}
