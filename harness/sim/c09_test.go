package sim

import (
	"fmt"
	"testing"
	"time"

	"pgregory.net/rapid"
)

type c09Cell struct {
	Role    string // candidate | follower | leader
	Op      string
	Nth     int
	Phase   string // issued | applied | returning | timer
	Variant int
	Demote  time.Duration
	Outcome string // ok | hang
}

var c09Variants = []Action{
	{Kind: ActStop},
	{Kind: ActStopCtx},
	{Kind: ActStopCtx, DeleteKey: true},
	{Kind: ActStopCtx, WaitForDemote: true},
	{Kind: ActStopCtx, DeleteKey: true, WaitForDemote: true},
	{Kind: ActStopCtx, DeleteKey: true, WaitForDemote: true, Timeout: 50*time.Millisecond + 1},
	{Kind: ActStopCtx, DeleteKey: true, Timeout: 6*time.Second + 1},
	{Kind: ActStopCtx, WaitForDemote: true, CtxMode: "deadline", CtxTimeout: 3*time.Second + 1},
	{Kind: ActStopCtx, DeleteKey: true, CtxMode: "cancel_after", CtxTimeout: 20*time.Millisecond + 1},
}

// follow-ups after the first stop: nothing, stop again, StopWithContext then Stop, concurrent double stop, stop then start
var c09Followups = []string{"none", "stop-again", "stopctx-again", "concurrent-double", "then-start", "then-start-new-object"}

func c09Plan(c c09Cell, followup string, lat []time.Duration, h time.Duration, others int) *Plan {
	ttl := 3 * h
	p := &Plan{Profile: "c09-grid", H: h, TTL: ttl, SnapEvery: odd(h/3 + 13*time.Microsecond), Dice: []float64{0.5, 0}}
	s := Inst{ID: "S", Group: "g", Lat: lat, DemoteDur: c.Demote, Promote: 1}
	stop := c09Variants[c.Variant]
	stop.Inst = 0
	var startS time.Duration = 1
	switch c.Role {
	case "leader":
	case "follower", "candidate", "successor", "successor-takeover":
		// another instance leads already
		startS = odd(2 * h)
	}
	if c.Role == "successor-takeover" {
		// S may preempt lower priorities: o0 (the first leader) outranks it, o1.. do not. When o0 hands the key
		// over, S and o1 race for it; a Create of S that loses is followed by the takeover's Get and Update -
		// in an acquisition round no Start and no stop call is waiting for
		s.Priority, s.Takeover = 20, true
		others = max(others, 2)
	}
	if c.Phase == "log" {
		// the stop is issued from inside the library's own log call c.Op (n-th occurrence), i.e. between the
		// two steps of the library around that line
		p.LogRules = []LogRule{{Inst: 0, Msg: c.Op, N: c.Nth, Action: stop}}
	} else if c.Phase == "timer" {
		// at / 1ns before / 1ns after a heartbeat (leader) or periodic-check (follower) timer
		base := startS + time.Duration(c.Nth+1)*h
		if c.Role != "leader" {
			base = startS + time.Duration(c.Nth+1)*500*time.Millisecond
		}
		off := map[string]time.Duration{OpCreate: -1, OpUpdate: 0, OpGet: 1, OpWatch: 0, OpDelete: 0}[c.Op]
		stop.At = base + off
		p.Timeline = append(p.Timeline, stop)
	} else {
		r := OpRule{Kind: c.Op, N: c.Nth, Trigger: &Trigger{Phase: c.Phase, Action: stop}}
		if c.Outcome == "hang" {
			r.Fault = FaultTimeout
		}
		s.Rules = append(s.Rules, r)
	}
	p.Instances = []Inst{s}
	p.Timeline = append(p.Timeline, Action{At: startS, Kind: ActStart, Inst: 0})
	for i := 0; i < others; i++ {
		o := Inst{ID: fmt.Sprintf("o%d", i), Group: "g", Lat: []time.Duration{1 + time.Duration(i), 3}}
		if c.Role == "successor-takeover" {
			o.Priority = 10
			if i == 0 {
				o.Priority = 30
			}
		}
		p.Instances = append(p.Instances, o)
		at := time.Duration(3 + 2*i)
		if c.Role == "leader" {
			at = odd(h/2 + time.Duration(i))
		}
		p.Timeline = append(p.Timeline, Action{At: at, Kind: ActStart, Inst: i + 1})
	}
	if c.Role == "successor" || c.Role == "successor-takeover" {
		// ... and hands the key over later: S acquires it through a watch event or the periodic check, on a
		// goroutine that no Start is waiting for
		p.Timeline = append(p.Timeline, Action{At: odd(4 * h), Kind: ActStopCtx, Inst: 1, DeleteKey: true})
	}
	if c.Role != "leader" && others == 0 {
		p.Instances = append(p.Instances, Inst{ID: "o0", Group: "g", Lat: []time.Duration{1, 3}})
		p.Timeline = append(p.Timeline, Action{At: 3, Kind: ActStart, Inst: len(p.Instances) - 1})
	}
	// follow-ups are placed relative to the end of the run's first phase
	fu := 8*h + 2*time.Second
	switch followup {
	case "stop-again":
		p.Timeline = append(p.Timeline, Action{At: odd(fu), Kind: ActStop, Inst: 0})
	case "stopctx-again":
		p.Timeline = append(p.Timeline, Action{At: odd(fu), Kind: ActStopCtx, Inst: 0, DeleteKey: true}, Action{At: odd(fu + time.Millisecond), Kind: ActStop, Inst: 0})
	case "concurrent-double":
		if c.Phase != "timer" {
			s2 := stop
			s2.Kind = ActStop
			p.Instances[0].Rules = append(p.Instances[0].Rules, OpRule{Kind: c.Op, N: c.Nth, Trigger: &Trigger{Phase: c.Phase, Delay: 1, Action: s2}})
		}
	case "then-start":
		p.Timeline = append(p.Timeline, Action{At: odd(fu), Kind: ActStart, Inst: 0})
	case "then-start-new-object":
		p.Timeline = append(p.Timeline, Action{At: odd(fu), Kind: ActStart, Inst: 0, NewObject: true})
	}
	p.Horizon = fu + ttl + 7*time.Second
	p.Note = fmt.Sprintf("%+v followup=%s", c, followup)
	return p
}

func c09Grid() []c09Cell {
	var out []c09Cell
	for _, role := range []string{"candidate", "follower", "leader"} {
		ops := map[string][]string{"candidate": {OpCreate}, "follower": {OpCreate, OpGet, OpWatch}, "leader": {OpCreate, OpUpdate, OpGet}}[role]
		for _, op := range ops {
			for nth := 0; nth < 3; nth++ {
				for _, ph := range []string{"issued", "applied", "returning", "timer"} {
					for vi := range c09Variants {
						for _, dd := range []time.Duration{0, 50 * time.Millisecond, 2 * time.Second} {
							for _, oc := range []string{"ok", "hang"} {
								if oc == "hang" && ph != "issued" {
									continue
								}
								out = append(out, c09Cell{role, op, nth, ph, vi, dd, oc})
							}
						}
					}
				}
			}
		}
	}
	// a takeover-enabled follower that races for the key after the leader's graceful shutdown
	for _, op := range []string{OpCreate, OpGet, OpUpdate} {
		for nth := 0; nth < 4; nth++ {
			if (op == OpCreate && nth == 0) || (op == OpUpdate && nth > 1) {
				continue
			}
			for _, ph := range []string{"issued", "applied", "returning"} {
				for vi := range c09Variants {
					out = append(out, c09Cell{"successor-takeover", op, nth, ph, vi, 0, "ok"})
				}
			}
		}
	}
	// stops at the library's log lines
	logs := map[string][]string{
		"candidate": {"election_started", "acquire_success", "acquire_failed", "state_transition", "leader_promoted"},
		"follower":  {"election_started", "acquire_failed", "state_transition", "watch_started", "leader_changed", "watch_event_key_deleted", "attempting_acquire_with_retry", "acquire_retry", "acquire_success", "leader_promoted"},
		"leader":    {"acquire_success", "state_transition", "leader_promoted", "heartbeat_failed", "token_validation_failed", "demoting_due_to_heartbeat_failure", "leader_demoted"},
	}
	logs["successor"] = []string{"watch_event_key_empty", "attempting_acquire_with_retry", "acquire_success", "state_transition", "leader_promoted", "key_not_found_triggering_reelection"}
	for _, role := range []string{"candidate", "follower", "leader", "successor"} {
		for _, msg := range logs[role] {
			for nth := 0; nth < 2; nth++ {
				for vi := range c09Variants {
					for _, dd := range []time.Duration{0, 2 * time.Second} {
						out = append(out, c09Cell{role, msg, nth, "log", vi, dd, "ok"})
					}
				}
			}
		}
	}
	return out
}

func TestC09(t *testing.T) {
	grid := c09Grid()
	RunCheck(t, CheckSpec{Prop: "C09",
		Rule:        fmt.Sprintf("stop-point grid: role {candidate in its first Create, follower, leader, successor = follower that acquires the key after the leader's graceful shutdown (log-line stops only), successor-takeover = takeover-enabled follower racing a lower-priority one for the key after the graceful shutdown of a leader that outranked both} x operation {Create, heartbeat Update, validation/periodic Get, Watch set-up} x n-th such operation (0..2) x phase {just issued, applied-not-answered, about to return, timer boundary (1ns before / at / 1ns after a heartbeat or periodic-check timer), inside one of the library's own log calls (22 messages: the stop runs between the two steps around that line)} x %d stop variants (Stop; StopWithContext x DeleteKey x WaitForDemote x Timeout {0, 50ms, 6s} x ctx {background, deadline, cancelled mid-call}) x OnDemote duration {0, 50ms, 2s} x outcome {answered, request unanswered for 5s / 12s / beyond the run} x heartbeat interval {100ms, 300ms, 1s, 20s} = %d cells, each combined with a follow-up {none, stop again, StopWithContext then Stop, concurrent double stop, stop-then-Start, stop-then-new-object}; thorough enumerates every cell (sharded) and adds generated latencies/companions; quick runs a seeded sample with generated latencies. Oracle after each stop call that returned nil: no claim-up edge, IsLeader()==false at every later snapshot, no OnPromote, no store operation issued (until a later Start), bounded duration of the call, with DeleteKey by the owner no own version live at return; process-level: no panic, no deadlock, no library goroutine left after teardown. Non-trivial = a stop that began while a store operation of that object was in flight; distinct by plan hash.", len(c09Variants), len(grid)),
		Assumptions: []string{"in this grid Start is not issued while a stop call on the same object has not returned (the general generators do issue such Starts; C08 has a known finding about them); StopWithContext is held to its effective time-out (Timeout, else the context's deadline, else 5s) + 1ms as a whole"},
		Fixed: func() []*Plan {
			var ps []*Plan
			if tier() != "thorough" {
				return ps
			}
			k, n := shard()
			for i, c := range grid {
				if i%n == k {
					ps = append(ps, c09Plan(c, c09Followups[i/n%len(c09Followups)], []time.Duration{3 * time.Millisecond, 5 * time.Millisecond, 40 * time.Millisecond}, 300*time.Millisecond, i/n%3))
				}
			}
			return ps
		},
		Gen: func(t *rapid.T) *Plan {
			c := grid[rapid.IntRange(0, len(grid)-1).Draw(t, "cell")]
			if rapid.IntRange(0, 3).Draw(t, "log_cell") == 0 {
				// the log-line cells are a small part of the grid: a quarter of the sample comes from them
				var ls []c09Cell
				for _, x := range grid {
					if x.Phase == "log" {
						ls = append(ls, x)
					}
				}
				c = ls[rapid.IntRange(0, len(ls)-1).Draw(t, "log_cell_i")]
			}
			if rapid.IntRange(0, 4).Draw(t, "win_cell") == 0 {
				// a fifth of the sample: stops that meet the answer of the Create that wins the key (the stop call
				// and the adoption of that answer then run side by side)
				var ws []c09Cell
				for _, x := range grid {
					if x.Op == OpCreate && (x.Phase == "applied" || x.Phase == "returning") && x.Outcome == "ok" &&
						((x.Role == "leader" && x.Nth == 0) || x.Role == "successor-takeover") {
						ws = append(ws, x)
					}
				}
				c = ws[rapid.IntRange(0, len(ws)-1).Draw(t, "win_cell_i")]
			}
			h := rapid.SampledFrom([]time.Duration{100 * time.Millisecond, 300 * time.Millisecond, time.Second, 300 * time.Millisecond, time.Second, 20 * time.Second}).Draw(t, "H")
			lat := genLatList(t, min(h/4, 250*time.Millisecond), "lat")
			fu := rapid.SampledFrom(c09Followups).Draw(t, "followup")
			p := c09Plan(c, fu, lat, h, rapid.IntRange(0, 2).Draw(t, "others"))
			if rapid.IntRange(0, 2).Draw(t, "yields_on") == 0 {
				// the processor is given up at the library's logger / metrics calls: what is runnable at the instant
				// of the stop (an answer that has just arrived, say) gets to run between two steps of the stop call
				p.Yields = rapid.SliceOfN(rapid.SampledFrom([]uint8{0, 1, 1, 2, 3}), 1, 6).Draw(t, "yields")
			}
			if c.Outcome == "hang" {
				// how long the unanswered request stays unanswered: the default 5s (it returns just as Stop gives up
				// waiting), somewhat longer, or beyond the end of the run
				p.HangFor = rapid.SampledFrom([]time.Duration{0, 0, 12 * time.Second, 10 * time.Minute}).Draw(t, "hang_for")
			}
			return p
		},
		Oracle: OracleC09})
}
