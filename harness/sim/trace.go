package sim

import (
	"context"
	"time"

	"verif/harness/refkv"
)

// All records carry virtual time T (since the start of the run) and a global
// sequence number Seq (total order of same-instant events).

type OpRec struct {
	ID         int
	Obj        int // global election-object index, -1: outside party
	Inst       int // -1: outside party
	Actor      string
	Kind       string
	Key        string
	Exp        uint64 // expected revision (update)
	Payload    []byte
	CondDelete bool // a delete with an expected revision (Exp)
	NthKind    int  // ordinal among this instance's operations of this kind

	IssueT, ApplyT, ReturnT       time.Duration
	IssueSeq, ApplySeq, ReturnSeq int // -1: did not happen
	Applied                       bool
	Ver                           *refkv.Version // the version written (applied writes) or read (get)
	PrevLive                      *refkv.Version // live version just before an applied write
	Err                           string
	ErrIsConflict                 bool
	Fault                         string
	Gid                           uint64
	InStopCtxDelete               bool // a Delete, or the Get that precedes it, issued while a StopWithContext{DeleteKey} call of this object is in progress
	WatchID                       int
}

type Edge struct {
	Seq     int
	T       time.Duration
	Inst    int
	Obj     int
	Value   bool
	Changed bool
	Claims  []int // instances of the same group with IsLeader()==true at this instant
	Live    *refkv.Version
	Token   string // Token() of the instance at this instant
	Gid     uint64
}

type CB struct {
	TermCtxDone int // demote-enter only: 1 = the context of the object's latest term was done at entry, 0 = not done, -1 = no term
	Seq         int
	T           time.Duration
	Inst        int
	Obj         int
	Kind        string // promote-enter | promote-exit | demote-enter | demote-exit
	Token       string
	Term        int // index into instRT.terms for promote events
	Gid         uint64
}

type Term struct {
	ID               int
	Obj              int
	Inst             int
	Token            string
	Ctx              context.Context
	EnterSeq         int
	EnterT           time.Duration
	CtxDoneAtEntry   bool // the context was already done when OnPromote was entered
	Exited           bool
	ExitT            time.Duration
	ExitedByTeardown bool
	ExitSeq          int
	CtxDoneAtExit    bool // the callback returned with its context done (blocking callbacks return for no other reason, bar teardown)
}

type LogRec struct {
	Seq    int
	T      time.Duration
	Inst   int
	Obj    int
	Level  string
	Msg    string
	Fields map[string]string
	Gid    uint64
}

type MetRec struct {
	Seq   int
	T     time.Duration
	Inst  int
	Obj   int
	Kind  string // transition | is_leader | conn_status | failure | acquire | tokfail
	From  string
	To    string
	Value float64
	Label string
}

type APIRec struct {
	ID               int
	Obj              int
	Inst             int
	Call             string
	Action           *Action
	CallT, RetT      time.Duration
	CallSeq, RetSeq  int // RetSeq -1: never returned
	Bool             bool
	Err              string
	WasLeaderAtCall  bool
	TokenAtCall      string
	IsLeaderAtReturn bool
}

type SnapInst struct {
	Inst        int
	Obj         int
	Gen         int
	Started     bool // Start returned nil and no stop call has begun since
	InStop      bool // a stop call is in progress
	Stopped     bool // a stop call has returned nil (and no Start since)
	ByCancel    bool // ... and that stop was the cancellation of the Start context (state FOLLOWER, not STOPPED)
	State       string
	IsLeader    bool
	StIsLeader  bool
	LeaderID    string
	StLeaderID  string
	Token       string
	StToken     string
	Revision    uint64
	Gauge       float64
	GaugeSet    bool
	P, D        int // promote / demote callback entries so far
	OpsInFlight int
}

type Snap struct {
	Seq   int
	T     time.Duration
	Why   string
	Insts []SnapInst
	Live  map[string]*refkv.Version
	// per running promote callback: ctx.Err()!=nil
	Terms []SnapTerm
}

type SnapTerm struct {
	Obj     int
	Inst    int
	Term    int
	Token   string
	CtxDone bool
	Exited  bool
}

type HealthRec struct {
	Seq          int
	T            time.Duration
	Inst         int
	Obj          int
	N            int // ordinal of the check on this instance
	Script       int
	Result       bool
	Deadline     time.Duration // ctx deadline minus call time; -1 none
	TokenAtCall  string
	LeaderAtCall bool
	Gid          uint64
}

type NotifRec struct {
	Seq       int
	T         time.Duration
	Inst      int
	Obj       int
	Kind      string
	Delivered bool // a handler was registered and has been invoked
	DoneSeq   int
	DoneT     time.Duration
	WasLeader bool
	TokenAt   string
}

type DiceRec struct {
	Seq   int
	T     time.Duration
	Value float64
	Gid   uint64
}

type WatchEv struct {
	Seq     int
	T       time.Duration // delivery time
	Obj     int
	Inst    int
	WatchID int
	Ev      refkv.Event
	Dropped bool
	Ordinal int
}

// WatchClose: the store side closed a watcher's update channel (ActCloseWatch).
type WatchClose struct {
	Seq     int
	T       time.Duration
	Obj     int
	Inst    int
	WatchID int
}

type Trace struct {
	Plan        *Plan
	StartAt     time.Time
	Ops         []*OpRec
	Edges       []*Edge
	CBs         []*CB
	Terms       []*Term
	Logs        []*LogRec
	Mets        []*MetRec
	APIs        []*APIRec
	Snaps       []*Snap
	Healths     []*HealthRec
	Notifs      []*NotifRec
	Dices       []*DiceRec
	WatchEvs    []*WatchEv
	WatchCloses []*WatchClose
	History     []*refkv.Version

	End                            time.Duration // virtual time when teardown began
	TeardownEnd                    time.Duration
	Leaked                         []string // goroutines with library frames left after teardown
	UnstoppedWatch                 int      // watchers the library never stopped
	StallsHit                      int      // stalls of the plan that took place (Plan.Stalls)
	StallRecs                      []*StallRec // when and where they took place
	UnstoppedWatchObjs             []int    // ... and the election objects that had opened them
	Panics                         []string // panics recovered inside harness callbacks (none expected)
	HarnessErr                     string
	HammerCalls                    int
	ExcludedRestartAfterFailedStop int
}

// StallRec: a library goroutine of instance Inst was held at scheduling point Point from FromT to ToT (-1:
// until the end of the run).
type StallRec struct {
	Inst  int
	Point string
	FromT time.Duration
	ToT   time.Duration
}

// StalledAt reports whether a goroutine of the instance was being held at the given point at time t.
func (tr *Trace) StalledAt(inst int, point string, t time.Duration) bool {
	for _, r := range tr.StallRecs {
		if r.Inst == inst && r.Point == point && r.FromT <= t && (r.ToT < 0 || t <= r.ToT) {
			return true
		}
	}
	return false
}
