package sim

import (
	"fmt"
	"testing"
	"time"

	"pgregory.net/rapid"
)

// genVacancyPlan: a leader, 1-3 candidates, one or more vacancies by a drawn
// cause, with lost/delayed watch events, failing Watch() calls and transient
// store failures on the candidates before the vacancy.
func genVacancyPlan(t *rapid.T) *Plan { return genVacancyPlanCause(t, "") }

// genVacancyPlanCause: forced != "" fixes the cause of the vacancy.
func genVacancyPlanCause(t *rapid.T, forced string) *Plan {
	h := rapid.SampledFrom([]time.Duration{100 * time.Millisecond, 200 * time.Millisecond, 300 * time.Millisecond, 700 * time.Millisecond, time.Second}).Draw(t, "H")
	ttl := time.Duration(rapid.SampledFrom([]int{3, 3, 5}).Draw(t, "ratio")) * h
	p := &Plan{Profile: "vacancy", H: h, TTL: ttl, SnapEvery: odd(h/2 + 3*time.Microsecond)}
	p.ExpirySlack = rapid.SampledFrom([]time.Duration{0, 0, 250 * time.Millisecond}).Draw(t, "expiry_slack")
	nc := rapid.IntRange(1, 3).Draw(t, "candidates")
	latMax := min(h/5, 60*time.Millisecond)
	p.Instances = append(p.Instances, Inst{ID: "L", Group: "g", Lat: genLatList(t, latMax, "latL")})
	p.Timeline = append(p.Timeline, Action{At: 1, Kind: ActStart, Inst: 0})
	for i := 1; i <= nc; i++ {
		in := Inst{ID: fmt.Sprintf("c%d", i), Group: "g", Lat: genLatList(t, latMax, fmt.Sprintf("lat%d", i))}
		switch rapid.IntRange(0, 4).Draw(t, "events") {
		case 0:
			in.DropAll = true
		case 1:
			in.WatchDrop = rapid.SliceOfNDistinct(rapid.IntRange(0, 40), 1, 12, rapid.ID[int]).Draw(t, "drop")
		case 2:
			in.WatchDelay = genLatList(t, 3*h, "wd")
		}
		if rapid.IntRange(0, 4).Draw(t, "slow_create_answer") == 0 {
			// "plus operation latencies": one of the candidate's Creates is applied at once but answered a good
			// second later (longer than any time-out the library has for its other operations)
			in.SlowWinAnswer = time.Duration(rapid.Int64Range(int64(1050*time.Millisecond), int64(2500*time.Millisecond)).Draw(t, "slow_win_answer"))
			in.SlowWinN = rapid.IntRange(0, 1).Draw(t, "slow_win_n")
		}
		in.WatchFail = rapid.SampledFrom([]int{0, 0, 0, 1, 2, 3}).Draw(t, "watch_fail")
		in.WatchFailErr = rapid.SampledFrom([]string{"", "", "auth", "invalid", "bucket"}).Draw(t, "watch_fail_err")
		p.Instances = append(p.Instances, in)
		p.Timeline = append(p.Timeline, Action{At: odd(2*latMax + time.Duration(rapid.Int64Range(1, int64(2*h)).Draw(t, "cstart"))), Kind: ActStart, Inst: i})
		if rapid.IntRange(0, 3).Draw(t, "ctx_restart") == 0 {
			// the candidate's election is ended by cancelling the context passed to Start (documented as a
			// graceful stop) and the same object is started again: it must be a full candidate again
			at := odd(time.Duration(rapid.Int64Range(int64(2*h), int64(4*h)).Draw(t, "cc_at")))
			p.Timeline = append(p.Timeline, Action{At: at, Kind: ActCancelCtx, Inst: i, NoWait: rapid.Bool().Draw(t, "cc_nowait")},
				Action{At: at + odd(time.Duration(rapid.Int64Range(1, int64(h)).Draw(t, "cc_gap"))), Kind: ActStart, Inst: i})
		}
		if rapid.IntRange(0, 3).Draw(t, "transient") == 0 {
			from := time.Duration(rapid.Int64Range(int64(h), int64(6*h)).Draw(t, "tw_from"))
			p.Windows = append(p.Windows, Window{Inst: i, From: from, To: from + time.Duration(rapid.Int64Range(1, int64(3*h)).Draw(t, "tw_len")),
				Mode: rapid.SampledFrom([]string{FaultErr, FaultTimeout}).Draw(t, "tw_mode"), ErrKind: rapid.SampledFrom([]string{ErrKTimeout, ErrKNoResponders, ErrKClosed}).Draw(t, "tw_err")})
		}
	}
	tv := odd(time.Duration(rapid.Int64Range(int64(4*h), int64(12*h)).Draw(t, "t_vacancy")))
	cause := rapid.SampledFrom([]string{"stopctx-delete", "crash", "ext-delete", "stop", "health-demotion", "foreign-record"}).Draw(t, "cause")
	if forced != "" {
		cause = forced
	}
	switch cause {
	case "foreign-record":
		// nobody leads: when the candidates start, the key holds a record some outside party left there (not a
		// well-formed payload of a participant); it is removed at tv. Candidates with and without priorities /
		// takeover: whatever they made of the foreign record, they must be back for the vacancy.
		var tl []Action
		for _, a := range p.Timeline {
			if a.Inst != 0 {
				tl = append(tl, a)
			}
		}
		val := rapid.SampledFrom([]string{"{}", "null", "{\"token\":\"x\",\"priority\":5}", "{\"id\":\"\",\"token\":\"t\"}", "{\"id\":\"\"}", "not json", "", "", "[1,2]", "{\"id\":7,\"token\":true}"}).Draw(t, "foreign_value")
		if rapid.IntRange(0, 2).Draw(t, "foreign_stays") == 0 {
			// the foreign record stays for a good while: whatever the candidates do about it in the meantime
			// must not grow with the time it stays
			tv += odd(time.Duration(rapid.Int64Range(int64(6*time.Second), int64(12*time.Second)).Draw(t, "foreign_for")))
		}
		p.Timeline = append(tl, Action{At: 0, Kind: ActExtPut, Inst: -1, Key: "g", Value: []byte(val), Desc: "foreign: " + val},
			Action{At: tv, Kind: ActExtDelete, Inst: -1, Key: "g"})
		for i := 1; i < len(p.Instances); i++ {
			if rapid.Bool().Draw(t, "cand_takeover") {
				p.Instances[i].Priority, p.Instances[i].Takeover = rapid.IntRange(1, 3).Draw(t, "cand_prio"), true
			}
		}
		// the record must outlive the candidates' start and last until tv: the outside party refreshes it
		for at := p.StoreTTL() / 2; at < tv; at += p.StoreTTL() / 2 {
			p.Timeline = append(p.Timeline, Action{At: odd(at), Kind: ActExtPut, Inst: -1, Key: "g", Value: []byte(val), Desc: "foreign: " + val})
		}
	case "health-demotion":
		// the leader's own health check fails often enough to demote it; it stays started, its checker answers
		// healthy again afterwards, and its record lapses: it is itself one of the candidates for the vacancy
		// (with keep_candidates == 0 the only one)
		m := rapid.SampledFrom([]int{1, 2, 3}).Draw(t, "mcf")
		good := rapid.IntRange(2, 8).Draw(t, "healthy_ticks")
		p.Instances[0].HasHealth, p.Instances[0].MCF = true, m
		for i := 0; i < good; i++ {
			p.Instances[0].Health = append(p.Instances[0].Health, 0)
		}
		for i := 0; i < m+rapid.IntRange(0, 1).Draw(t, "extra_bad"); i++ {
			p.Instances[0].Health = append(p.Instances[0].Health, rapid.SampledFrom([]int{1, 1, 3}).Draw(t, "bad"))
		}
		tv = odd(time.Duration(good+m+1) * h)
		if rapid.IntRange(0, 1).Draw(t, "sole") == 0 {
			// nobody else: drop the candidates
			p.Instances = p.Instances[:1]
			var tl []Action
			for _, a := range p.Timeline {
				if a.Inst <= 0 {
					tl = append(tl, a)
				}
			}
			p.Timeline = tl
			var ws []Window
			for _, w := range p.Windows {
				if w.Inst == 0 {
					ws = append(ws, w)
				}
			}
			p.Windows = ws
			nc = 0
		}
	case "stopctx-delete":
		p.Timeline = append(p.Timeline, Action{At: tv, Kind: ActStopCtx, Inst: 0, DeleteKey: true, WaitForDemote: rapid.Bool().Draw(t, "wfd")})
	case "crash":
		p.Windows = append(p.Windows, Window{Inst: 0, From: tv, Mode: rapid.SampledFrom([]string{FaultErr, FaultTimeout}).Draw(t, "crash_mode"), ErrKind: ErrKNoResponders})
	case "ext-delete":
		p.Timeline = append(p.Timeline, Action{At: tv, Kind: ActExtDelete, Inst: -1, Key: "g"})
	case "stop":
		p.Timeline = append(p.Timeline, Action{At: tv, Kind: ActStop, Inst: 0})
	}
	// sometimes a second vacancy: the first successor shuts down gracefully later
	p.Horizon = tv + ttl + 3*time.Second + 12*h + 14*time.Second
	if nc > 0 && rapid.IntRange(0, 2).Draw(t, "second") == 0 {
		who := rapid.IntRange(1, nc).Draw(t, "second_who")
		p.Timeline = append(p.Timeline, Action{At: odd(tv + ttl + 2*time.Second + time.Duration(rapid.Int64Range(0, int64(4*h)).Draw(t, "second_at"))), Kind: ActStopCtx, Inst: who, DeleteKey: true})
	}
	nd := rapid.IntRange(0, 4).Draw(t, "ndice")
	for i := 0; i < nd; i++ {
		p.Dice = append(p.Dice, rapid.SampledFrom([]float64{0, 0.999999, 0.5}).Draw(t, "dice"))
	}
	p.Note = "vacancy cause: " + cause
	return p
}

func TestC06(t *testing.T) {
	RunCheck(t, CheckSpec{Prop: "C06",
		Rule:        "a leader plus 1-3 candidates; the record becomes vacant by {graceful shutdown with DeleteKey, crash = permanent partition of the leader so that the record lapses, outside delete, plain Stop so that the record lapses, the leader's health check demoting it (the leader stays started, alone or with the candidates, and its record lapses), or no leader at all: the key holds an outside party's record ({} / null / id-less / non-JSON / empty ...) when the candidates (with and without takeover) start, and it is deleted later} at a generated instant (optionally a second vacancy later); per candidate: all / a random subset / none of the watch events lost, deliveries delayed up to 3H, Watch() failing 0-3 times (with a time-out, or with an error that reads like a permanent one: authentication expired, invalid subscription, bucket not found), a transient error/time-out window on its store operations that ends, an end of its election by cancelling the Start context followed by a restart of the same object; jitter dice at the extremes. Oracle: for every vacancy instant (mutation log + expiry) with healthy started candidates, some candidate has a claim-up edge within 500ms + 100ms + 4 x max RTT of max(vacancy, candidate healthy, candidate started, last healthy claimant's claim end). Non-trivial = a vacancy with a healthy candidate and (no watch event of the vacancy delivered to any candidate, or an earlier Watch/partition failure on a candidate); distinct by plan hash.",
		Gen:         genVacancyPlan,
		Oracle:      OracleC06,
		Assumptions: []string{"the allowance for 'operation latencies' is 4 x the largest request+response latency of the plan (Create, Watch, Get, Create)"}})
}
