package sim

import (
	"fmt"
	"os"
	"strings"
	"testing"

	"verif/harness/report"
)

// TestDebugReplay prints the full timeline of a replay file (VERIF_REPLAY), optionally
// filtered to lines containing VERIF_GREP.
func TestDebugReplay(t *testing.T) {
	var p Plan
	is, err := report.LoadReplay(&p)
	if !is || err != nil {
		t.Skip("no replay")
	}
	tr := Run(t, &p)
	g := os.Getenv("VERIF_GREP")
	for _, l := range strings.Split(tr.Timeline(0, 0, os.Getenv("VERIF_LOGS") != ""), "\n") {
		if g == "" || strings.Contains(l, g) {
			fmt.Println(l)
		}
	}
}
