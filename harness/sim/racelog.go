package sim

import (
	"fmt"
	"os"
	"regexp"
	"sort"
	"strings"
)

// The race detector (GORACE=log_path=...) appends its reports to
// <log_path>.<pid>. After every case the new part of that file is parsed and
// each report is normalised to the unordered pair of innermost library frames.

var raceOff int64

func raceLogPath() string {
	for _, kv := range strings.Fields(os.Getenv("GORACE")) {
		if strings.HasPrefix(kv, "log_path=") {
			return fmt.Sprintf("%s.%d", strings.TrimPrefix(kv, "log_path="), os.Getpid())
		}
	}
	return ""
}

type RaceReport struct {
	Sig  string
	Text string
	Lib  bool // at least one side has a library frame
}

var accessRe = regexp.MustCompile(`(?m)^(Read|Write|Previous read|Previous write|Atomic read|Atomic write|Previous atomic read|Previous atomic write) at 0x[0-9a-f]+ by (main )?goroutine \d*:?$`)

func innermost(block string) (string, bool) {
	first := ""
	for _, l := range strings.Split(block, "\n") {
		l = strings.TrimSpace(l)
		if l == "" || strings.HasPrefix(l, "/") || strings.Contains(l, " at 0x") {
			continue
		}
		fn := l
		if i := strings.LastIndex(fn, "("); i > 0 {
			fn = fn[:i]
		}
		if strings.HasPrefix(fn, libPrefix) {
			return strings.TrimPrefix(fn, libPrefix), true
		}
		if first == "" && !strings.HasPrefix(fn, "runtime.") && !strings.HasPrefix(fn, "sync") {
			first = fn
		}
	}
	return first, false
}

func newRaceReports() []RaceReport {
	p := raceLogPath()
	if p == "" {
		return nil
	}
	b, err := os.ReadFile(p)
	if err != nil || int64(len(b)) <= raceOff {
		return nil
	}
	txt := string(b[raceOff:])
	raceOff = int64(len(b))
	var out []RaceReport
	for _, rep := range strings.Split(txt, "==================") {
		if !strings.Contains(rep, "WARNING: DATA RACE") {
			continue
		}
		idx := accessRe.FindAllStringIndex(rep, -1)
		if len(idx) < 2 {
			out = append(out, RaceReport{Sig: "C20 race (unparsed report)", Text: rep, Lib: strings.Contains(rep, libPrefix)})
			continue
		}
		end := strings.Index(rep[idx[1][1]:], "\nGoroutine ")
		second := rep[idx[1][1]:]
		if end >= 0 {
			second = second[:end]
		}
		a, la := innermost(rep[idx[0][1]:idx[1][0]])
		c, lc := innermost(second)
		pair := []string{a, c}
		sort.Strings(pair)
		out = append(out, RaceReport{Sig: "C20 race " + pair[0] + " <-> " + pair[1], Text: strings.TrimSpace(rep), Lib: la || lc})
	}
	return out
}
