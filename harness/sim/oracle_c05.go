package sim

import (
	"fmt"
)

// OracleC05: tokens are unique per term and constant within it.
func OracleC05(tr *Trace) Verdict {
	p := tr.Plan
	v := Verdict{Premise: true}
	idOf := map[string]bool{}
	for _, in := range p.Instances {
		idOf[in.ID] = true
	}
	termsPerInst := map[int]int{}
	for _, c := range tr.Claims() {
		if c.FromT < tr.End {
			termsPerInst[c.Inst]++
		}
	}
	maxTerms := 0
	for _, n := range termsPerInst {
		maxTerms = max(maxTerms, n)
	}
	v.Nontrivial = maxTerms >= 2
	v.Classes = append(v.Classes, fmt.Sprintf("max-terms-per-instance=%d", min(maxTerms, 4)))
	for _, key := range p.Groups() {
		seen := map[string]*Own{}
		os := tr.Ownership(key)
		for i, o := range os {
			if o.Ver.Tomb {
				continue
			}
			writer := o.Ver.Actor
			if !idOf[writer] || o.Op == nil || o.FromT >= tr.End {
				// outside party: only remember what it wrote
				if o.P != nil {
					for _, t := range o.P.Tokens {
						if seen[t] == nil {
							seen[t] = o
						}
					}
				}
				continue
			}
			if o.P == nil || !o.P.Canonical || o.P.IDs[0] != writer {
				v.Viols = append(v.Viols, Viol{At: o.FromT, Sig: "C05 non-canonical-payload-written",
					Msg: fmt.Sprintf("%s wrote %s at %v: not the canonical payload with its own id", writer, fmtVer(o.Ver), o.FromT)})
				continue
			}
			tok := o.P.Tokens[0]
			var prev *Own
			if i > 0 && os[i-1].Live() && os[i-1].ToSeq == o.FromSeq && !os[i-1].Expired {
				prev = os[i-1]
			}
			// a refresh replaces a version this instance wrote itself; an Update over somebody
			// else's version (even one that names this instance) is an acquisition
			refresh := o.Op.Kind == OpUpdate && prev != nil && prev.Ver.Actor == writer && prev.P != nil
			if refresh {
				if len(prev.P.Tokens) == 0 || prev.P.Tokens[len(prev.P.Tokens)-1] != tok {
					v.Viols = append(v.Viols, Viol{At: o.FromT, Sig: "C05 refresh-changed-token",
						Msg: fmt.Sprintf("%s refreshed its record at %v (rev %d -> %d) but the token changed from %v to %.8s", writer, o.FromT, prev.Ver.Rev, o.Ver.Rev, prev.P.Tokens, tok)})
				}
			} else {
				if first := seen[tok]; first != nil {
					v.Viols = append(v.Viols, Viol{At: o.FromT, Sig: "C05 acquisition-reused-token",
						Msg: fmt.Sprintf("%s acquired the record at %v (rev %d, %s) with token %.8s which already appeared in rev %d written by %s", writer, o.FromT, o.Ver.Rev, o.Op.Kind, tok, first.Ver.Rev, first.Ver.Actor)})
				}
			}
			if seen[tok] == nil {
				seen[tok] = o
			}
		}
	}
	// the token handed to OnPromote, Token() and Status().Token while leading
	claims := tr.Claims()
	tokOfVersions := map[int]map[string]bool{} // inst -> tokens it ever wrote
	for _, ver := range tr.History {
		if ver.Tomb {
			continue
		}
		for i, in := range p.Instances {
			if in.ID == ver.Actor {
				if pl := ParsePayload(ver.Value); pl != nil && len(pl.Tokens) > 0 {
					if tokOfVersions[i] == nil {
						tokOfVersions[i] = map[string]bool{}
					}
					tokOfVersions[i][pl.Tokens[0]] = true
				}
			}
		}
	}
	for _, t := range tr.Terms {
		if t.EnterT >= tr.End {
			continue
		}
		if !tokOfVersions[t.Inst][t.Token] {
			v.Viols = append(v.Viols, Viol{At: t.EnterT, Sig: "C05 onpromote-token-never-stored",
				Msg: fmt.Sprintf("%s#%d: OnPromote at %v received token %.8s which this instance never wrote to the record", tr.ID(t.Inst), t.Obj, t.EnterT, t.Token)})
		}
	}
	for _, c := range claims {
		if c.FromT >= tr.End {
			continue
		}
		// an outside party that mutates the key between this acquisition's write and its promotion
		// (e.g. deletes it, after which another attempt of the same instance creates it again) makes the
		// stored token somebody's else business for a moment: the statement speaks about the election's own terms
		var acq *OpRec
		for _, op := range tr.Ops {
			if op.Gid == c.Up.Gid && op.Obj == c.Obj && op.ReturnSeq >= 0 && op.ReturnSeq < c.FromSeq && (op.Kind == OpCreate || op.Kind == OpUpdate) {
				acq = op
			}
		}
		interfered := false
		for _, op := range tr.Ops {
			if op.Obj < 0 && op.Applied && acq != nil && op.ApplySeq > acq.ApplySeq && op.ApplySeq < c.FromSeq+1 {
				interfered = true
			}
			if op.Obj < 0 && op.Applied && op.ApplySeq > c.FromSeq && (c.ToSeq < 0 || op.ApplySeq < c.ToSeq) && op.Key == p.Instances[c.Inst].Group {
				interfered = true
			}
		}
		if interfered {
			v.Classes = append(v.Classes, "skipped:outside-write-during-term")
			continue
		}
		// a request of a retired election object of the same instance id that was still in flight may land
		// after its successor started: that record carries the same id but is not this object's record
		foreign := false
		for _, op := range tr.Ops {
			if op.Applied && op.Ver != nil && op.Ver == c.Up.Live && op.Obj != c.Obj {
				foreign = true
			}
		}
		if foreign {
			v.Classes = append(v.Classes, "skipped:record-written-by-a-retired-object-of-the-same-id")
			continue
		}
		if c.Up.Live != nil && c.Up.Live.Actor == tr.ID(c.Inst) {
			if pl := ParsePayload(c.Up.Live.Value); pl != nil && len(pl.Tokens) == 1 && pl.Tokens[0] != c.Token {
				v.Viols = append(v.Viols, Viol{At: c.FromT, Sig: "C05 token-differs-from-stored-token",
					Msg: fmt.Sprintf("%s#%d starts leading at %v: Token() is %.8s but its live record carries %.8s", tr.ID(c.Inst), c.Obj, c.FromT, c.Token, pl.Tokens[0])})
			}
		}
		for _, s := range tr.Snaps {
			if s.Seq <= c.FromSeq || (c.ToSeq >= 0 && s.Seq >= c.ToSeq) || s.T >= tr.End {
				continue
			}
			for _, si := range s.Insts {
				if si.Obj != c.Obj || !si.IsLeader {
					continue
				}
				if si.Token != c.Token || si.StToken != c.Token {
					v.Viols = append(v.Viols, Viol{At: s.T, Sig: "C05 token-changed-within-term",
						Msg: fmt.Sprintf("%s#%d leads since %v with token %.8s but at %v Token()=%.8s Status().Token=%.8s", tr.ID(c.Inst), c.Obj, c.FromT, c.Token, s.T, si.Token, si.StToken)})
				}
			}
		}
	}
	sortViols(v.Viols)
	return v
}
