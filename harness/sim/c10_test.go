package sim

import (
	"fmt"
	"testing"
	"time"

	"pgregory.net/rapid"
)

func genPriorityPlan(t *rapid.T) *Plan {
	h := rapid.SampledFrom([]time.Duration{100 * time.Millisecond, 200 * time.Millisecond, 500 * time.Millisecond, time.Second}).Draw(t, "H")
	ttl := time.Duration(rapid.SampledFrom([]int{3, 4, 10}).Draw(t, "ratio")) * h
	p := &Plan{Profile: "priority", H: h, TTL: ttl, SnapEvery: odd(h/3 + 17*time.Microsecond)}
	n := rapid.IntRange(2, 5).Draw(t, "n")
	mode := rapid.SampledFrom([]string{"prompt", "prompt", "adversarial"}).Draw(t, "mode")
	latMax := h / 21 // RTT <= H/10
	if mode == "adversarial" {
		latMax = h / 3
	}
	for i := 0; i < n; i++ {
		in := Inst{ID: fmt.Sprintf("p%d", i), Group: "g", Lat: genLatList(t, latMax, fmt.Sprintf("lat%d", i))}
		in.Priority = rapid.SampledFrom([]int{1, 1, 2, 2, 3, 0, 100}).Draw(t, "prio")
		in.Takeover = in.Priority > 0 && rapid.IntRange(0, 3).Draw(t, "enabled") > 0
		if rapid.IntRange(0, 2).Draw(t, "wd") == 0 {
			// takeover by a running follower is triggered by the incumbent's heartbeat events: the promptness
			// clause presumes timely notifications (same H/10 as store latencies); the safety clause does not
			wdMax := h / 10
			if mode == "adversarial" {
				wdMax = 2 * h
			}
			in.WatchDelay = genLatList(t, wdMax, "wd")
		}
		p.Instances = append(p.Instances, in)
	}
	if mode == "prompt" && rapid.IntRange(0, 2).Draw(t, "recovered") == 0 {
		// health checks that fail for a while early in the run and answer healthy ever after: whoever stepped
		// down (or was stopped) over them must preempt again once conditions are fault-free again
		mode = "prompt, health checks failing early on"
		for i := range p.Instances {
			if rapid.IntRange(0, 2).Draw(t, "hc") == 0 {
				continue
			}
			in := &p.Instances[i]
			in.HasHealth, in.MCF = true, rapid.SampledFrom([]int{0, 1, 2, 3}).Draw(t, "mcf")
			for j := rapid.IntRange(0, 3).Draw(t, "h_ok"); j > 0; j-- {
				in.Health = append(in.Health, 0)
			}
			for j := rapid.IntRange(1, 4).Draw(t, "h_bad"); j > 0; j-- {
				in.Health = append(in.Health, 1)
			}
		}
	}
	// start orders: a permutation with generated gaps, or a challenger started at a phase of the incumbent's heartbeat
	order := rapid.Permutation(seq(n)).Draw(t, "order")
	cur := time.Duration(1)
	for k, i := range order {
		if k > 0 && rapid.IntRange(0, 3).Draw(t, "phase_start") == 0 {
			inc := order[0]
			p.Instances[inc].Rules = append(p.Instances[inc].Rules, OpRule{Kind: OpUpdate, N: rapid.IntRange(0, 5).Draw(t, "hb_n"),
				Trigger: &Trigger{Phase: rapid.SampledFrom([]string{"issued", "applied", "returning"}).Draw(t, "hb_phase"), Delay: rapid.SampledFrom([]time.Duration{0, 1}).Draw(t, "hb_delay"),
					Action: Action{Kind: ActStart, Inst: i}}})
			continue
		}
		p.Timeline = append(p.Timeline, Action{At: cur, Kind: ActStart, Inst: i})
		switch rapid.IntRange(0, 3).Draw(t, "gap") {
		case 0:
			cur += 2
		case 1:
			cur += odd(time.Duration(rapid.Int64Range(1, int64(h)).Draw(t, "g")))
		default:
			cur += odd(time.Duration(rapid.Int64Range(int64(h), int64(6*h)).Draw(t, "g")))
		}
	}
	if mode != "adversarial" && rapid.IntRange(0, 1).Draw(t, "succession") == 0 {
		// a leader leaves (gracefully or not): the instances that were turned away before must still
		// preempt whoever of lower priority picks the vacant key up
		for j := 0; j < rapid.IntRange(1, 2).Draw(t, "leavers"); j++ {
			i := order[rapid.IntRange(0, min(1, n-1)).Draw(t, "leaver")]
			at := odd(cur + time.Duration(rapid.Int64Range(int64(2*h), int64(8*h)).Draw(t, "leave_at")))
			a := Action{At: at, Kind: ActStopCtx, Inst: i, DeleteKey: rapid.Bool().Draw(t, "leave_delete")}
			if rapid.IntRange(0, 2).Draw(t, "leave_plain") == 0 {
				a = Action{At: at, Kind: ActStop, Inst: i}
			}
			p.Timeline = append(p.Timeline, a)
			if rapid.Bool().Draw(t, "comes_back") {
				p.Timeline = append(p.Timeline, Action{At: at + odd(time.Duration(rapid.Int64Range(int64(h), int64(6*h)).Draw(t, "back_after"))), Kind: ActStart, Inst: i, NewObject: rapid.Bool().Draw(t, "back_new")})
			}
			cur = at
		}
	}
	if mode == "adversarial" && rapid.Bool().Draw(t, "hb_faults") {
		// the incumbent's refreshes fail transiently / are answered late while it is being preempted
		for j := rapid.IntRange(1, 3).Draw(t, "n_hb_faults"); j > 0; j-- {
			i := rapid.IntRange(0, n-1).Draw(t, "hbf_inst")
			r := OpRule{Kind: OpUpdate, N: rapid.IntRange(0, 6).Draw(t, "hbf_n")}
			switch rapid.IntRange(0, 2).Draw(t, "hbf_kind") {
			case 0:
				r.Fault, r.ErrKind = FaultErr, rapid.SampledFrom([]string{ErrKTimeout, ErrKNoResponders}).Draw(t, "hbf_err")
			case 1:
				r.Fault = FaultAckLost
			default:
				r.SetLat, r.ReqLat, r.RespLat = true, 1, time.Second+time.Duration(rapid.Int64Range(1, int64(h)).Draw(t, "hbf_resp"))
			}
			p.Instances[i].Rules = append(p.Instances[i].Rules, r)
		}
	}
	if mode == "adversarial" {
		// stops and restarts are allowed for the safety clause
		for j := 0; j < rapid.IntRange(0, 2).Draw(t, "stops"); j++ {
			i := rapid.IntRange(0, n-1).Draw(t, "s_inst")
			at := odd(cur + time.Duration(rapid.Int64Range(1, int64(8*h)).Draw(t, "s_at")))
			p.Timeline = append(p.Timeline, GenStopAction(t, at, i, h))
			p.Timeline = append(p.Timeline, Action{At: at + odd(time.Duration(rapid.Int64Range(1, int64(2*ttl)).Draw(t, "rs"))), Kind: ActStart, Inst: i})
		}
	}
	p.Horizon = cur + 14*h + ttl + 4*time.Second
	if mode != "prompt" && mode != "adversarial" {
		p.Horizon += 2*ttl + 6*h
	}
	nd := rapid.IntRange(0, 3).Draw(t, "ndice")
	for i := 0; i < nd; i++ {
		p.Dice = append(p.Dice, rapid.SampledFrom([]float64{0, 0.999999, 0.5}).Draw(t, "dice"))
	}
	p.Note = "mode: " + mode
	return p
}

func seq(n int) []int {
	s := make([]int, n)
	for i := range s {
		s[i] = i
	}
	return s
}

func TestC10(t *testing.T) {
	RunCheck(t, CheckSpec{Prop: "C10",
		Rule:   "2-5 instances with priorities from {0,1,1,2,2,3,100} (ties frequent) and mixed takeover flags; every start order (a drawn permutation) with gaps from 2ns to 6H, or a challenger started at a phase (issued/applied/returning) of the incumbent's k-th heartbeat; two modes: 'prompt' (fault-free, RTT <= H/10, watch deliveries delayed by at most H/10; starts, in half of the plans a leader that leaves and possibly comes back, in a third of them health checkers that answer unhealthy 1-4 times early in the run - below, at or above MaxConsecutiveFailures - and healthy ever after: the promptness clause then counts from the moment conditions are fault-free again, TTL + 3H after the last unhealthy answer) and 'adversarial' (latencies up to H/3 per direction, stops and restarts) for the safety clause; oracle: every applied Update over another party's live record comes from an enabled instance with strictly higher priority than the stored one; in prompt mode a strictly higher-priority enabled instance next to a lower-priority leader leads within 3H, the deposed leader is down within H+2T of the replacing write, and after settling the owner never changes again and no outranked instance leads. Non-trivial = a preemption opportunity (enabled instance vs a different priority) or a tie among enabled instances; distinct by plan hash.",
		Gen:    genPriorityPlan,
		Oracle: OracleC10})
}
