package sim

import (
	"fmt"
	"testing"
	"time"

	"pgregory.net/rapid"
)

var knobsRace = Knobs{MinInst: 1, MaxInst: 3, LatFrac: 0.3, WatchDelayH: 1, Faults: true, WatchFail: true, Takeover: true, Stops: true, StopPhases: true, Ext: true,
	Conn: true, Health: true, Probes: true, Promote: true, NewObjects: true, MinHorizonH: 10, MaxHorizonH: 25}

var hammerCalls = []string{"isleader", "leaderid", "token", "status", "validate", "validateordemote", "register"}

// genRaceTimerPlan: connection notifications placed at the very instants at which the grace timer they (or
// their predecessors) armed fires, so that the timer goroutine and the client's callback goroutine run the
// disconnect handler's paths in parallel. A sole monitored leader; after a grace demotion it re-acquires its
// record once that has lapsed (the store itself stays reachable), so one plan holds several rounds.
func genRaceTimerPlan(t *rapid.T) *Plan {
	h := rapid.SampledFrom([]time.Duration{100 * time.Millisecond, 200 * time.Millisecond, 300 * time.Millisecond}).Draw(t, "H")
	p := &Plan{Profile: "race/timer-instants", H: h, TTL: 3 * h, NoQuiesce: true, Lean: true}
	in := Inst{ID: "m", Group: "g", Monitored: true, Lat: []time.Duration{1, 3},
		Grace: rapid.SampledFrom([]time.Duration{2 * h, 2*h + 1, 5 * h}).Draw(t, "grace")}
	p.Instances = []Inst{in}
	p.Timeline = []Action{{At: 1, Kind: ActStart, Inst: 0}}
	g := p.graceOf(0)
	cur := odd(2 * h)
	rounds := rapid.IntRange(2, 6).Draw(t, "rounds")
	for r := 0; r < rounds; r++ {
		p.Timeline = append(p.Timeline, Action{At: cur, Kind: ActDisconnect, Inst: 0})
		second := Action{At: cur + g + rapid.SampledFrom([]time.Duration{0, 0, 0, -1, 1}).Draw(t, "off"), Inst: 0,
			Kind: rapid.SampledFrom([]string{ActDisconnect, ActDisconnect, ActReconnect, ActClosed}).Draw(t, "second")}
		if rapid.Bool().Draw(t, "burst") {
			second.Then = rapid.SliceOfN(rapid.SampledFrom([]string{ActDisconnect, ActReconnect}), 1, 2).Draw(t, "then")
		}
		p.Timeline = append(p.Timeline, second)
		// next round once the instance leads again: record lapse + periodic check + jitter
		cur = odd(cur + g + p.TTL + time.Second + time.Duration(rapid.Int64Range(0, int64(h)).Draw(t, "gap")))
	}
	p.Horizon = cur + time.Second
	p.Hammers = []Hammer{{Inst: 0, From: h, To: p.Horizon, N: 2, Gap: h / 3, Calls: []string{"isleader", "status", "token"}}}
	sortTimeline(p)
	return p
}

// genRaceLateCheckPlan: a follower whose watch channel was closed by the store runs its one-off check of the
// key on a goroutine of its own; that check's Get is slow, the follower is stopped meanwhile (every goroutine
// the stop call waits for ends), the leader has deleted the key by the time the Get is applied - and the check
// goes on to start an acquisition round for a run whose stop call has long finished waiting. Whatever that
// round touches (the run's WaitGroup, say) must be ordered with the stop call. Lean.
func genRaceLateCheckPlan(t *rapid.T) *Plan {
	h := rapid.SampledFrom([]time.Duration{100 * time.Millisecond, 200 * time.Millisecond}).Draw(t, "H")
	p := &Plan{Profile: "race/late-check", H: h, TTL: 3 * h, NoQuiesce: true, Lean: true}
	d := time.Duration(rapid.Int64Range(int64(5*time.Millisecond), int64(60*time.Millisecond)).Draw(t, "get_lat"))
	tC := odd(2*h + time.Duration(rapid.Int64Range(0, int64(h)).Draw(t, "t_close")))
	f := Inst{ID: "F", Group: "g", Lat: []time.Duration{1, 3}, Takeover: rapid.Bool().Draw(t, "takeover")}
	if f.Takeover {
		f.Priority = 1
	}
	// every Get of F from the close on is slow (the periodic ones before it are not: they are numbered)
	for n := 0; n < 40; n++ {
		f.Rules = append(f.Rules, OpRule{Kind: OpGet, N: n, SetLat: true, ReqLat: d, RespLat: 1})
	}
	p.Instances = []Inst{{ID: "L", Group: "g", Priority: f.Priority, Lat: []time.Duration{1, 3}}, f}
	p.Timeline = []Action{{At: 1, Kind: ActStart, Inst: 0}, {At: odd(h / 3), Kind: ActStart, Inst: 1},
		{At: tC, Kind: ActCloseWatch, Inst: 1},
		{At: tC + odd(d/3), Kind: ActStopCtx, Inst: 0, DeleteKey: true},
		{At: tC + odd(d/2), Kind: rapid.SampledFrom([]string{ActStop, ActStopCtx}).Draw(t, "stop_kind"), Inst: 1}}
	if rapid.Bool().Draw(t, "restart") {
		p.Timeline = append(p.Timeline, Action{At: tC + odd(d/2) + 2, Kind: ActStart, Inst: 1}, Action{At: tC + odd(d) + odd(h), Kind: ActStop, Inst: 1})
	}
	p.Horizon = tC + 4*h + time.Second
	sortTimeline(p)
	return p
}

func genRacePlan(t *rapid.T) *Plan {
	switch rapid.IntRange(0, 7).Draw(t, "timer_shape") {
	case 0:
		return genRaceTimerPlan(t)
	case 1:
		return genRaceLateCheckPlan(t)
	}
	p := GenPlan(t, "race", knobsRace)
	p.NoQuiesce = true
	p.Lean = rapid.IntRange(0, 3).Draw(t, "lean") > 0
	nh := rapid.IntRange(1, 3).Draw(t, "nhammers")
	for i := 0; i < nh; i++ {
		from := time.Duration(rapid.Int64Range(0, int64(p.Horizon/2)).Draw(t, "h_from"))
		h := Hammer{Inst: rapid.IntRange(0, len(p.Instances)-1).Draw(t, "h_inst"), From: from,
			To:    from + time.Duration(rapid.Int64Range(int64(p.H), int64(p.Horizon/2)).Draw(t, "h_len")),
			N:     rapid.IntRange(2, 8).Draw(t, "h_n"),
			Gap:   time.Duration(rapid.Int64Range(1, int64(p.H/4)).Draw(t, "h_gap")),
			Calls: rapid.SliceOfNDistinct(rapid.SampledFrom(hammerCalls), 1, len(hammerCalls), rapid.ID[string]).Draw(t, "h_calls")}
		p.Hammers = append(p.Hammers, h)
	}
	return p
}

// OracleC20: the Go race detector is the oracle; this function only classifies the case.
func OracleC20(tr *Trace) Verdict {
	v := Verdict{Premise: true}
	// non-trivial: API calls of the hammer overlapped a background transition
	trans := 0
	if tr.Plan.Lean {
		// nothing is recorded from library goroutines in lean plans: a transition is an acquisition
		// (record with a new token) of the hammered instance's group inside the hammer window
		for _, h := range tr.Plan.Hammers {
			last := ""
			for _, o := range tr.Ownership(tr.Plan.Instances[h.Inst].Group) {
				if !o.Live() || !o.LibOK {
					continue
				}
				if o.Lib.Token != last && o.FromT >= h.From && o.FromT <= h.To {
					trans++
				}
				last = o.Lib.Token
			}
		}
		v.Classes = append(v.Classes, "lean")
	}
	for _, e := range tr.Edges {
		if e.Changed {
			for _, h := range tr.Plan.Hammers {
				if h.Inst == e.Inst && e.T >= h.From && e.T <= h.To {
					trans++
				}
			}
		}
	}
	v.Nontrivial = tr.HammerCalls >= 2 && trans > 0
	v.Classes = append(v.Classes, fmt.Sprintf("sum:hammer-calls=%d", tr.HammerCalls), fmt.Sprintf("sum:transitions-under-hammer=%d", trans))
	for _, rr := range newRaceReports() {
		if !rr.Lib {
			v.Viols = append(v.Viols, Viol{At: tr.End, Sig: "HARNESS " + rr.Sig, Msg: "race report without a library frame (harness self-check):\n" + rr.Text})
			continue
		}
		v.Viols = append(v.Viols, Viol{At: tr.End, Sig: rr.Sig, Msg: rr.Text})
	}
	return v
}

func TestC20(t *testing.T) {
	if !raceEnabled {
		t.Skip("built without -race")
	}
	RunCheck(t, CheckSpec{Prop: "C20",
		Rule:        "plans under every fault class (store faults, partitions, outside writes, takeover, health scripts, connection notifications, probes, stops at op phases, restarts, new objects) plus 1-3 'hammers': 2-8 concurrent caller goroutines per instance issuing IsLeader, LeaderID, Token, Status, ValidateToken, ValidateTokenOrDemote and callback re-registration every 1ns..H/4 of virtual time during a generated window; the binary is built with -race and runs with GOMAXPROCS=16 (virtual time, real parallel execution inside the bubble); three plans in four run 'lean': logger and metrics are no-ops, callbacks and operation returns record nothing and take no shared lock, hammers do not synchronise with each other - so that the harness adds no happens-before edges between library goroutines; one plan in six is the shape 'connection notifications at the very instants at which the grace timer fires' (a sole monitored leader, several rounds); oracle: every report of the Go race detector, normalised to the unordered pair of innermost library functions. Non-trivial = a run in which >= 2 hammer calls were made and a leadership transition of the hammered instance (lean plans: an acquisition in its group) happened inside the hammer window; distinct by plan hash.",
		Gen:         genRacePlan,
		Oracle:      OracleC20,
		Assumptions: []string{"the race detector only reports races on accesses that were executed; it is happens-before based, so the accesses need not coincide in time", "reports with no library frame on either side are harness bugs: they fail the check's self-test, not the property"}})
}
