//go:build !(race && goexperiment.synctest)

package sim

import (
	"testing"
	"testing/synctest"
)

// runBubble executes f in a fresh synctest bubble.
func runBubble(t *testing.T, f func()) {
	synctest.Test(t, func(*testing.T) { f() })
}
