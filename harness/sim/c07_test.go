package sim

import (
	"testing"

	"pgregory.net/rapid"
)

var knobsStable = Knobs{MinInst: 2, MaxInst: 5, LatFrac: 0.2499, WatchDelayH: 6, Stops: true, StopPhases: true, Promote: true, LongH: true, NewObjects: true, HealthyChecks: true, TakeoverTies: true, MinHorizonH: 20, MaxHorizonH: 40}

func TestC07(t *testing.T) {
	RunCheck(t, CheckSpec{
		Prop: "C07",
		Rule: "fault-free plans built to create overlap: 2-5 instances, latencies < H/4 per direction (one list in eight: every operation at the limit), heartbeat intervals up to 3s, in half of the plans one common priority with priority takeover enabled for most instances (nobody outranks anybody: no preemption), health checkers that always answer healthy (at once or only when their 100ms context expires), watch deliveries delayed by up to 6H (FIFO kept), graceful DeleteKey shutdowns / stops / restarts of leaders and followers at generated times and at phases of in-flight operations, dice extremes, runs of 20-40 H; oracle: each term is undisturbed (no claim-down edge, no OnDemote, same token at every snapshot, every heartbeat succeeds, record never lapses or changes owner) until the first stop call on that election. Non-trivial = a term during which the same instance made another acquisition attempt, a watch event older than the term reached the leader, a periodic Get straddled the promotion, or another instance started/stopped; distinct by plan hash.",
		Gen: MixShapes(func(t *rapid.T) *Plan { return GenPlan(t, "stable", knobsStable) },
			func(t *rapid.T) *Plan { return GenRestartInFlightPlan(t, "stable") }),
		Oracle: OracleC07,
	})
}
