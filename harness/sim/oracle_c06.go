package sim

import (
	"fmt"
	"time"
)

// healthySince: the instant from which instance i can reach a responsive store
// for good (end of its last partition window; never if one is open-ended), and
// whether link faults remain scripted on it (then it is not counted healthy).
func (p *Plan) healthySince(i int) (time.Duration, bool) {
	var t time.Duration
	for _, w := range p.Windows {
		if w.Inst != i {
			continue
		}
		if w.To == 0 {
			return 0, false
		}
		end := w.To
		if w.Mode != FaultErr {
			// a request caught by the window just before its end only fails when the client's
			// request time-out fires; until then the goroutine that issued it is blocked
			end += p.hangFor()
		}
		if end > t {
			t = end
		}
	}
	for _, r := range p.Instances[i].Rules {
		if r.Fault != FaultNone {
			return 0, false
		}
	}
	return t, true
}

// OracleC06: a vacancy is filled within 500ms + 100ms + operation latencies
// while a healthy candidate exists, whatever watch events are lost.
func OracleC06(tr *Trace) Verdict {
	p := tr.Plan
	v := Verdict{Premise: true}
	claims := tr.Claims()
	// "plus operation latencies": the periodic check's Get and the Create that follows it (and as much again
	// for a lost race). Operations that a rule makes slower than the instance's ordinary latencies count once
	// each - a Create answered a second late delays the claim by that second, not by four.
	rtt, slow := p.baseRTT(), time.Duration(0)
	for _, in := range p.Instances {
		for _, r := range in.Rules {
			if r.SetLat {
				slow += r.ReqLat + r.RespLat // (each such rule slows one operation down)
			}
		}
		slow += in.SlowWinAnswer
	}
	B := 600*time.Millisecond + 4*rtt + slow + time.Millisecond
	// lifecycle intervals per object: started (Start returned) .. stop call begins
	type life struct {
		obj, inst int
		from, to  time.Duration
		watchOK   time.Duration // -1: its Watch() never succeeded
	}
	var lives []*life
	cur := map[int]*life{}
	for _, a := range tr.APIs {
		switch a.Call {
		case "CancelStartContext":
			if l := cur[a.Obj]; l != nil && a.CallT < l.to {
				l.to = a.CallT
			}
		case "Start":
			if a.Err == "" {
				if l := cur[a.Obj]; l != nil && a.CallT < l.to {
					l.to = a.CallT
				}
				l := &life{obj: a.Obj, inst: a.Inst, from: a.RetT, to: tr.End, watchOK: -1}
				cur[a.Obj] = l
				lives = append(lives, l)
			}
		case "Stop", "StopWithContext":
			if l := cur[a.Obj]; l != nil && a.CallT < l.to {
				l.to = a.CallT
			}
		}
	}
	for _, key := range p.Groups() {
		os := tr.Ownership(key)
		// vacancy instants: a live version stops being live (deleted, replaced by a delete marker, expired)
		// and nothing live follows immediately
		type vac struct {
			at    time.Duration
			cause string
		}
		var vacs []vac
		for i, o := range os {
			if !o.Live() {
				continue
			}
			if o.Expired && o.ToT < tr.End {
				vacs = append(vacs, vac{o.ToT, "expired"})
			} else if i+1 < len(os) && !os[i+1].Live() && os[i+1].FromT == o.ToT {
				cause := "deleted-by-outside-party"
				if os[i+1].Op != nil && os[i+1].Op.Obj >= 0 {
					cause = "deleted-by-graceful-shutdown"
				}
				vacs = append(vacs, vac{o.ToT, cause})
			}
		}
		liveAt := func(t time.Duration) bool {
			for _, o := range os {
				if o.Live() && o.FromT <= t && t < o.ToT {
					return true
				}
			}
			return false
		}
		for _, vc := range vacs {
			// candidates: started, not stopped, healthy over the whole window
			type cand struct {
				l  *life
				t0 time.Duration
			}
			var cands []cand
			for _, l := range lives {
				if p.Instances[l.inst].Group != key {
					continue
				}
				hs, ok := p.healthySince(l.inst)
				if !ok {
					continue
				}
				gaveUp := false
				if p.Instances[l.inst].WatchFail > 0 {
					// transient Watch() failures: the bound applies again once they have ceased, i.e. once
					// a Watch() call of this object has succeeded. An object that stops calling Watch()
					// although the store would answer has given up permanently (12s covers the largest backoff).
					var okAt, lastFail time.Duration = -1, -1
					for _, op := range tr.Ops {
						if op.Obj == l.obj && op.Kind == OpWatch && op.ReturnSeq >= 0 && op.IssueT >= l.from {
							if op.Err == "" && okAt < 0 {
								okAt = op.ReturnT
							} else if op.Err != "" {
								lastFail = op.ReturnT
							}
						}
					}
					switch {
					case okAt >= 0:
						hs = max(hs, okAt)
					case lastFail >= 0 && min(l.to, tr.End)-lastFail > 12*time.Second:
						gaveUp = true
						hs = max(hs, lastFail)
					default:
						continue
					}
				}
				_ = gaveUp
				t0 := max(vc.at, hs, l.from)
				// d: the instant the last healthy instance still claiming at the vacancy lost its claim
				for _, c := range claims {
					if p.Instances[c.Inst].Group != key {
						continue
					}
					if _, ok := p.healthySince(c.Inst); !ok {
						continue // an unhealthy (cut-off) claimant is ignored
					}
					if c.FromT <= vc.at && c.ToT > t0 {
						t0 = c.ToT
					}
				}
				if t0+B <= l.to && t0+B < tr.End {
					cands = append(cands, cand{l, t0})
				}
			}
			if len(cands) == 0 {
				continue
			}
			// the common window in which every candidate is available: latest t0
			t0 := time.Duration(0)
			for _, c := range cands {
				t0 = max(t0, c.t0)
			}
			// keep candidates available over [t0, t0+B]
			var avail []cand
			for _, c := range cands {
				if t0+B <= c.l.to {
					avail = append(avail, c)
				}
			}
			if len(avail) == 0 {
				continue
			}
			// if the record is live again at some instant of the window through someone's
			// write, the vacancy is filled; the writer's claim follows within its response latency
			filled := false
			for _, c := range claims {
				if p.Instances[c.Inst].Group == key && c.FromT >= vc.at && c.FromT <= t0+B {
					filled = true
				}
			}
			// (plans with an outside writer: a record the outside party puts there ends the vacancy as well -
			// nobody can, or may, take a key that holds somebody else's live record)
			for _, o := range os {
				if !o.Live() || o.FromT < vc.at || o.FromT > t0+B {
					continue
				}
				byCandidate := false
				for _, c := range avail {
					if o.Ver.Actor == p.Instances[c.l.inst].ID {
						byCandidate = true
					}
				}
				if !byCandidate {
					filled = true // written by the outside party, or by an instance that is not among the candidates (an operation of a stopped one that was still in flight, say)
				}
			}
			// classes
			lost := true
			for _, w := range tr.WatchEvs {
				if !w.Dropped && !w.Ev.Marker && w.Ev.Delete && w.T >= vc.at && w.T <= t0+B {
					for _, c := range avail {
						if w.Obj == c.l.obj {
							lost = false
						}
					}
				}
			}
			cls := "vacancy:" + vc.cause
			v.Classes = append(v.Classes, cls)
			pre := false
			for _, c := range avail {
				in := p.Instances[c.l.inst]
				if in.WatchFail > 0 || in.DropAll || len(in.WatchDrop) > 0 {
					pre = true
				}
				for _, w := range p.Windows {
					if w.Inst == c.l.inst {
						pre = true
					}
				}
			}
			if lost || vc.cause == "expired" {
				v.Classes = append(v.Classes, "no-watch-event-of-the-vacancy-delivered")
			}
			if lost || vc.cause == "expired" || pre {
				v.Nontrivial = true
			}
			if filled {
				continue
			}
			if liveAt(t0 + B) {
				// somebody (e.g. a stopping or cut-off instance, or the outside party) re-created the
				// record: no vacancy any more
				continue
			}
			why := ""
			for _, c := range avail {
				in := p.Instances[c.l.inst]
				if in.WatchFail > 0 {
					why = " (its Watch() call failed earlier)"
				}
			}
			sig := "C06 vacancy-not-filled"
			if why != "" {
				sig = "C06 vacancy-not-filled candidate-without-watch-loop after Watch() error"
			}
			var names []string
			for _, c := range avail {
				names = append(names, fmt.Sprintf("%s#%d", tr.ID(c.l.inst), c.l.obj))
			}
			v.Viols = append(v.Viols, Viol{At: t0 + B, Sig: sig,
				Msg: fmt.Sprintf("key %s became vacant at %v (%s); healthy started candidates %v are available from %v, yet none became leader by %v (500ms + 100ms + 4 x max RTT %v)%s", key, vc.at, vc.cause, names, t0, t0+B, rtt, why)})
		}
	}
	sortViols(v.Viols)
	return v
}
