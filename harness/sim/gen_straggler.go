package sim

import (
	"time"

	"pgregory.net/rapid"
)

// GenStragglerPlan builds the shape "something of the previous term is still under way when the same instance
// has already begun its next term": health checks that only answer when their 100ms context expires (so that a
// heartbeat iteration of the old term straddles the term change), Create answers that take longer than a
// heartbeat interval (so that an acquisition is applied long before the instance learns of it), and outside
// deletions at generated instants, after which the instance re-acquires within 10ms + latency (dice 0).
func GenStragglerPlan(t *rapid.T, profile string) *Plan {
	h := rapid.SampledFrom([]time.Duration{100 * time.Millisecond, 200 * time.Millisecond, 300 * time.Millisecond}).Draw(t, "H")
	p := &Plan{Profile: profile + "/straggler", H: h, TTL: 3 * h, SnapEvery: odd(h/3 + 31*time.Microsecond)}
	a := Inst{ID: "s0", Group: "g", Lat: []time.Duration{1, 3}, Promote: rapid.SampledFrom([]int{0, 1, 2}).Draw(t, "promote"),
		VI: rapid.SampledFrom([]time.Duration{0, h, h}).Draw(t, "vi")}
	if rapid.IntRange(0, 3).Draw(t, "checker") > 0 {
		a.HasHealth = true
		a.MCF = rapid.SampledFrom([]int{0, 1, 2, 3}).Draw(t, "mcf")
		// mostly slow answers; unhealthy ones stay below the threshold most of the time
		// (4 / 5: a checker that ignores its context and answers healthy / unhealthy after 3H+1s)
		a.Health = rapid.SliceOfN(rapid.SampledFrom([]int{2, 2, 2, 2, 0, 3, 3, 4, 5}), 10, 60).Draw(t, "script")
	}
	if rapid.IntRange(0, 2).Draw(t, "demote_dur") == 0 {
		a.DemoteDur = rapid.SampledFrom([]time.Duration{time.Millisecond, 50 * time.Millisecond, 2 * h}).Draw(t, "dd")
	}
	// some Creates are answered late (applied at once, acknowledged after up to 3H)
	for j := 0; j < rapid.IntRange(0, 4).Draw(t, "nslow"); j++ {
		// (or reach the store late: a Create sent while the key was taken arrives after the key has been freed)
		req := time.Duration(1)
		if rapid.Bool().Draw(t, "slow_request") {
			req = odd(time.Duration(rapid.Int64Range(int64(h/2), int64(3*h)).Draw(t, "req")))
		}
		a.Rules = append(a.Rules, OpRule{Kind: OpCreate, N: rapid.IntRange(1, 8).Draw(t, "create_n"), SetLat: true, ReqLat: req,
			RespLat: odd(time.Duration(rapid.Int64Range(int64(h/2), int64(3*h)).Draw(t, "resp")))})
	}
	takeoverShape := rapid.IntRange(0, 3).Draw(t, "takeover_shape") == 0
	if takeoverShape {
		// s0 preempts a lower-priority leader, but the answer to its takeover write is late by more than the
		// record's lifetime: the record it does not know it owns lapses, it acquires the key afresh, and then
		// the old answer arrives
		a.Priority, a.Takeover = rapid.IntRange(1, 3).Draw(t, "prio"), true
		late := p.TTL + 500*time.Millisecond + time.Duration(rapid.Int64Range(int64(h), int64(10*h)).Draw(t, "late"))
		a.Rules = append(a.Rules, OpRule{Kind: OpUpdate, N: 0, SetLat: true, ReqLat: 1, RespLat: odd(late)})
	}
	p.Instances = []Inst{a}
	first := time.Duration(h)
	if takeoverShape {
		// s0 is a follower of s1 (higher priority) with its watch loop running; s1 hands the key over and an
		// outside party at once puts a well-formed low-priority record there, which s0 preempts
		p.Instances = append(p.Instances, Inst{ID: "s1", Group: "g", Priority: 9, Lat: []time.Duration{5, 7}})
		tv := odd(3 * h)
		p.Timeline = []Action{{At: 1, Kind: ActStart, Inst: 1}, {At: odd(h), Kind: ActStart, Inst: 0},
			{At: tv, Kind: ActStopCtx, Inst: 1, DeleteKey: true},
			{At: tv + 2, Kind: ActExtPut, Inst: -1, Key: "g", Value: []byte(`{"id":"phantom","token":"phantom-token","priority":0}`), Desc: "phantom payload"}}
		p.Horizon = tv + 3*p.TTL + 20*h + 4*time.Second
		p.Dice = []float64{0}
		sortTimeline(p)
		return p
	}
	if rapid.IntRange(0, 3).Draw(t, "was_follower") > 0 {
		// s0 begins as a follower of s1, which hands the key over: only an instance that has been a follower
		// runs a watch loop, and only through it does a leader learn of a deletion before its next heartbeat
		p.Instances = append(p.Instances, Inst{ID: "s1", Group: "g", Lat: []time.Duration{5, 7}})
		p.Timeline = []Action{{At: 1, Kind: ActStart, Inst: 1}, {At: odd(h / 2), Kind: ActStart, Inst: 0},
			{At: odd(2 * h), Kind: ActStopCtx, Inst: 1, DeleteKey: true}}
		first = 3 * h
	} else {
		p.Timeline = []Action{{At: 1, Kind: ActStart, Inst: 0}}
		if rapid.IntRange(0, 2).Draw(t, "second") == 0 {
			p.Instances = append(p.Instances, Inst{ID: "s1", Group: "g", Lat: []time.Duration{5, 7}})
			p.Timeline = append(p.Timeline, Action{At: odd(h / 2), Kind: ActStart, Inst: 1})
		}
	}
	// outside deletions at generated instants (every slow check blocks 100ms of each H, so many of them fall
	// into a heartbeat iteration that is under way)
	nd := rapid.IntRange(1, 6).Draw(t, "ndel")
	cur := odd(first + time.Duration(rapid.Int64Range(int64(h), int64(3*h)).Draw(t, "first_del")))
	for j := 0; j < nd; j++ {
		p.Timeline = append(p.Timeline, Action{At: cur, Kind: ActExtDelete, Inst: -1, Key: "g"})
		if rapid.IntRange(0, 2).Draw(t, "probe") == 0 {
			// the application checks its token shortly afterwards: a demotion from outside the heartbeat loop
			p.Timeline = append(p.Timeline, Action{At: cur + odd(time.Duration(rapid.Int64Range(1, int64(h/2)).Draw(t, "probe_after"))), Kind: ActProbeDem, Inst: 0})
		}
		cur += odd(time.Duration(rapid.Int64Range(int64(h/4), int64(4*h)).Draw(t, "del_gap")))
	}
	p.Horizon = cur + 8*h + p.TTL + 2*time.Second
	p.Dice = []float64{0}
	if rapid.IntRange(0, 3).Draw(t, "dice_mix") == 0 {
		p.Dice = []float64{0, 0.5, 0}
	}
	sortTimeline(p)
	return p
}
