//go:build !race

package sim

const raceEnabled = false
