package sim

import (
	"fmt"
	"time"
)

// liveDuring lists the versions of key that were live at some instant of [from, to].
func liveDuring(os []*Own, from, to time.Duration) []*Own {
	var out []*Own
	for _, o := range os {
		if o.Live() && o.FromT <= to && o.ToT >= from {
			out = append(out, o)
		}
	}
	return out
}

// OracleC04: ValidateToken is sound and fail-safe; ValidateTokenOrDemote demotes on false.
func OracleC04(tr *Trace) Verdict {
	p := tr.Plan
	v := Verdict{Premise: true}
	ci := tr.causes()
	claims := tr.Claims()
	owns := map[string][]*Own{}
	nTrue, nProbes, nLeaderProbes := 0, 0, 0
	for _, a := range tr.APIs {
		if (a.Call != "ValidateToken" && a.Call != "ValidateTokenOrDemote") || a.RetSeq < 0 || a.RetT >= tr.End {
			continue
		}
		nProbes++
		id := tr.ID(a.Inst)
		key := p.Instances[a.Inst].Group
		who := fmt.Sprintf("%s#%d", id, a.Obj)
		if owns[key] == nil {
			owns[key] = tr.Ownership(key)
		}
		if a.WasLeaderAtCall {
			nLeaderProbes++
		}
		// Gets issued by this object inside the call (the call performs exactly one, in a goroutine of its own;
		// the periodic validation may add others: any of them may be the one whose answer was used)
		var gets []*OpRec
		for _, op := range tr.Ops {
			if op.Obj == a.Obj && op.Kind == OpGet && op.IssueSeq > a.CallSeq && op.IssueSeq < a.RetSeq {
				gets = append(gets, op)
			}
		}
		ld := liveDuring(owns[key], a.CallT, a.RetT)
		changed := len(ld) != 1 || ld[0].FromT > a.CallT || ld[0].ToT < a.RetT
		if changed {
			v.Classes = append(v.Classes, "probe-overlaps-record-change")
			v.Nontrivial = true
		}
		for _, o := range ld {
			if o.P != nil && !o.P.Canonical {
				v.Classes = append(v.Classes, "probe-of-non-canonical-json-object")
				v.Nontrivial = true
			}
		}
		if a.Bool {
			nTrue++
			switch {
			case !a.WasLeaderAtCall:
				v.Viols = append(v.Viols, Viol{At: a.RetT, Sig: "C04 true-while-not-leader", Msg: fmt.Sprintf("%s: %s called at %v while IsLeader()==false returned true", who, a.Call, a.CallT)})
			case a.Action != nil && a.Action.CtxMode == "cancelled":
				v.Viols = append(v.Viols, Viol{At: a.RetT, Sig: "C04 true-with-cancelled-context", Msg: fmt.Sprintf("%s: %s called at %v with an already cancelled context returned true", who, a.Call, a.CallT)})
			default:
				okRead := false
				for _, g := range gets {
					if g.Err == "" && g.ReturnSeq >= 0 && g.ReturnSeq < a.RetSeq && g.Ver != nil && Contains(g.Ver.Value, id, a.TokenAtCall) {
						okRead = true
					}
				}
				okLive := false
				for _, o := range ld {
					if Contains(o.Ver.Value, id, a.TokenAtCall) {
						okLive = true
					}
				}
				if !okLive {
					var what []string
					for _, o := range ld {
						what = append(what, fmtVer(o.Ver))
					}
					v.Viols = append(v.Viols, Viol{At: a.RetT, Sig: "C04 true-without-matching-live-record",
						Msg: fmt.Sprintf("%s: %s over [%v, %v] returned true, but no record version live in that interval contains id %q and the term token %.8s; live versions: %v", who, a.Call, a.CallT, a.RetT, id, a.TokenAtCall, what)})
				} else if !okRead {
					v.Viols = append(v.Viols, Viol{At: a.RetT, Sig: "C04 true-without-successful-read",
						Msg: fmt.Sprintf("%s: %s over [%v, %v] returned true although no Get of this instance inside the call returned a matching record (store error / time-out must yield false)", who, a.Call, a.CallT, a.RetT)})
				}
			}
		} else {
			// completeness on the canonical case: stable own canonical record, background ctx, unfaulted read, still leader
			stable := len(ld) == 1 && ld[0].FromT <= a.CallT && ld[0].ToT > a.RetT && ld[0].P != nil && ld[0].P.Canonical &&
				ld[0].Ver.Actor == id && Contains(ld[0].Ver.Value, id, a.TokenAtCall)
			ctxOK := a.Action != nil && a.Action.CtxMode == ""
			readOK := len(gets) > 0
			for _, g := range gets {
				if g.Err != "" || g.ReturnSeq < 0 || g.ReturnSeq > a.RetSeq {
					readOK = false
				}
			}
			ledThroughout := a.WasLeaderAtCall
			for _, c := range claims {
				if c.Obj == a.Obj && c.ToSeq >= 0 && c.ToSeq > a.CallSeq && c.ToSeq <= a.RetSeq {
					ledThroughout = false
				}
			}
			if stable && ctxOK && readOK && ledThroughout && a.Call == "ValidateToken" {
				v.Viols = append(v.Viols, Viol{At: a.RetT, Sig: "C04 false-on-own-canonical-record",
					Msg: fmt.Sprintf("%s: ValidateToken over [%v, %v] returned false (%s) although it led throughout, the read succeeded and the live record %s is its own canonical payload with the term token", who, a.CallT, a.RetT, a.Err, fmtVer(ld[0].Ver))})
			}
		}
		if a.Call == "ValidateTokenOrDemote" && !a.Bool {
			// no longer leader once the call has returned (unless a new promotion was logged during the call)
			rePromoted := false
			for _, c := range claims {
				// (a promotion in the very instant of the return counts as well: the harness samples IsLeader() a
				// moment after the library's return, and a re-acquisition that was runnable gets in between)
				if c.Obj == a.Obj && c.FromSeq > a.CallSeq && (c.FromSeq <= a.RetSeq || c.FromT <= a.RetT) {
					rePromoted = true
				}
			}
			if rePromoted {
				v.Classes = append(v.Classes, "skipped:re-promoted-during-call")
				continue
			}
			// (a stop call under way at the return - in particular a Start context that was cancelled or expired
			// in this very instant, whose shutdown the library carries out on a goroutine of its own - owns the
			// end of the term: the verdict false is right, the claim goes within the instant)
			stopUnderWay := false
			for _, st := range ci.stops[a.Obj] {
				if st.CallSeq < a.RetSeq && (st.RetSeq < 0 || st.RetSeq > a.RetSeq) {
					stopUnderWay = true
				}
			}
			if a.IsLeaderAtReturn && !stopUnderWay {
				v.Viols = append(v.Viols, Viol{At: a.RetT, Sig: "C04 ordemote-false-but-still-leader",
					Msg: fmt.Sprintf("%s: ValidateTokenOrDemote called at %v returned false at %v but IsLeader() is still true", who, a.CallT, a.RetT)})
			}
			if a.WasLeaderAtCall {
				// the term that was running at call time must have got its OnDemote by now,
				// unless a stop call owns the demotion (it invokes OnDemote after its wait)
				var term *Claim
				for _, c := range claims {
					if c.Obj == a.Obj && c.FromSeq < a.CallSeq && (c.ToSeq < 0 || c.ToSeq > a.CallSeq) {
						term = c
					}
				}
				if term != nil && term.Down != nil && ci.CauseOf(term.Down) != CauseStop {
					ok := false
					for _, cb := range tr.CBs {
						if cb.Obj == a.Obj && cb.Kind == "demote-enter" && cb.Seq > term.FromSeq && cb.Seq <= a.RetSeq {
							ok = true
						}
						// two mechanisms demoting at once (a second caller, the validation loop, the heartbeat): the
						// one that clears the claim runs OnDemote; the other returns false on finding the claim gone,
						// which can be a few instructions before the callback is entered - same virtual instant
						if cb.Obj == a.Obj && cb.Kind == "demote-enter" && cb.Seq > a.RetSeq && cb.T == a.RetT && term.ToSeq >= 0 && term.ToT == a.RetT {
							ok = true
						}
					}
					if !ok {
						v.Viols = append(v.Viols, Viol{At: a.RetT, Sig: "C04 ordemote-false-without-ondemote",
							Msg: fmt.Sprintf("%s: ValidateTokenOrDemote returned false at %v, the instance led at call time, but OnDemote has not been invoked for that term", who, a.RetT)})
					}
				}
			}
		}
	}
	v.Classes = append(v.Classes, fmt.Sprintf("sum:probes=%d", nProbes), fmt.Sprintf("sum:probes-on-leader=%d", nLeaderProbes), fmt.Sprintf("sum:probes-true=%d", nTrue))
	sortViols(v.Viols)
	return v
}
