package sim

import (
	"errors"
	"sync"
	"time"

	"github.com/ali-assar/NATS-Leader-Election/leader"
	"github.com/nats-io/nats.go"

	"verif/harness/refkv"
)

// link is the leader.KeyValue one election object talks to: request latency,
// one atomic application on the reference store, response latency, and the
// faults of the plan.
type link struct {
	s *Sim
	o *objRT
}

type entry struct {
	k string
	v []byte
	r uint64
}

func (e *entry) Key() string      { return e.k }
func (e *entry) Value() []byte    { return e.v }
func (e *entry) Revision() uint64 { return e.r }

func errOfKind(k string) error {
	switch k {
	case ErrKNoResponders:
		return nats.ErrNoResponders
	case ErrKClosed:
		return nats.ErrConnectionClosed
	}
	return nats.ErrTimeout
}

func (in *instRT) rule(kind string, n int) *OpRule {
	for i := range in.spec.Rules {
		r := &in.spec.Rules[i]
		if r.Kind == kind && r.N == n {
			return r
		}
	}
	return nil
}

func (s *Sim) window(inst int, at time.Duration) *Window {
	for i := range s.plan.Windows {
		w := &s.plan.Windows[i]
		if w.Inst == inst && at >= w.From && (w.To == 0 || at < w.To) {
			return w
		}
	}
	return nil
}

func (s *Sim) trigger(r *OpRule, phase string) {
	if r == nil || r.Trigger == nil || r.Trigger.Phase != phase {
		return
	}
	s.fire(r.Trigger.Action, r.Trigger.Delay)
	if r.Trigger.Follow != nil {
		s.fire(*r.Trigger.Follow, r.Trigger.Delay+r.Trigger.FollowDelay)
	}
}

// exec runs one store operation of an election object. apply is called at the
// application instant (holding applyMu) and fills rec.Ver / returns the store's error.
func (l *link) exec(kind, key string, payload []byte, exp uint64, apply func(rec *OpRec) error) (*OpRec, error) {
	s, o, in := l.s, l.o, l.o.in
	s.mu.Lock()
	rec := &OpRec{ID: s.opID, Obj: o.idx, Inst: in.idx, Actor: in.spec.ID, Kind: kind, Key: key, Exp: exp,
		Payload: append([]byte(nil), payload...), NthKind: in.opCount[kind], IssueT: s.now(), IssueSeq: s.nextSeq(),
		ApplySeq: -1, ReturnSeq: -1, Gid: gid(), InStopCtxDelete: (kind == OpDelete || kind == OpGet) && o.delDepth > 0}
	s.opID++
	in.opCount[kind]++
	rule := in.rule(kind, rec.NthKind)
	var req, resp time.Duration
	if n := len(in.spec.Lat); n > 0 {
		req = in.spec.Lat[in.latIdx%n]
		resp = in.spec.Lat[(in.latIdx+1)%n]
		in.latIdx += 2
	}
	if rule != nil && rule.SetLat {
		req, resp = rule.ReqLat, rule.RespLat
	}
	if !s.lean {
		o.opsInFlight++
	}
	s.tr.Ops = append(s.tr.Ops, rec)
	s.mu.Unlock()
	vclock.Store(int64(s.now()))

	var err error
	finish := func() (*OpRec, error) {
		if s.lean {
			// nothing shared is touched on the way back into the library (rec belongs to this goroutine
			// until teardown has joined it)
			rec.ReturnT = s.now()
			if err != nil {
				rec.Err = err.Error()
			}
			return rec, err
		}
		s.mu.Lock()
		rec.ReturnT = s.now()
		rec.ReturnSeq = s.nextSeq()
		if err != nil {
			rec.Err = err.Error()
			rec.ErrIsConflict = errors.Is(err, nats.ErrKeyExists)
		}
		o.opsInFlight--
		s.mu.Unlock()
		vclock.Store(int64(s.now()))
		return rec, err
	}
	doApply := func() {
		s.applyMu.Lock()
		rec.PrevLive = s.store.Live(key)
		err = apply(rec)
		if s.lean {
			// no harness lock on the library goroutine's way back (it would order this goroutine after whatever
			// API call of the plan returned last, and hide a race between the two); the store's own lock is
			// what a real store has as well
			rec.Applied = err == nil
			rec.ApplyT = s.now()
			rec.ApplySeq = 1<<30 + int(s.leanApply.Add(1))
		} else {
			s.mu.Lock()
			rec.Applied = err == nil
			rec.ApplyT = s.now()
			rec.ApplySeq = s.nextSeq()
			s.mu.Unlock()
		}
		s.applyMu.Unlock()
	}

	s.trigger(rule, "issued")
	if s.tearing.Load() {
		// teardown: the store answers at once so that everything can wind down
		doApply()
		return finish()
	}
	s.sleepI(req)
	fault, ek := FaultNone, ""
	if rule != nil && rule.Fault != FaultNone {
		fault, ek = rule.Fault, rule.ErrKind
	} else if w := s.window(in.idx, s.now()); w != nil {
		fault, ek = w.Mode, w.ErrKind
	}
	if s.tearing.Load() {
		fault = FaultNone
	}
	rec.Fault = fault
	switch fault {
	case FaultErr:
		s.sleepI(resp)
		err = errOfKind(ek)
		s.trigger(rule, "returning")
		return finish()
	case FaultTimeout:
		s.sleepI(s.plan.hangFor())
		err = nats.ErrTimeout
		s.trigger(rule, "returning")
		return finish()
	case FaultAckLost:
		doApply()
		s.trigger(rule, "applied")
		s.sleepI(s.plan.hangFor())
		if err == nil {
			err = nats.ErrTimeout
		}
		s.trigger(rule, "returning")
		return finish()
	}
	doApply()
	if kind == OpCreate && rec.Applied && in.spec.SlowWinAnswer > 0 {
		s.mu.Lock()
		if in.wonCreates == in.spec.SlowWinN {
			resp = in.spec.SlowWinAnswer
		}
		in.wonCreates++
		s.mu.Unlock()
	}
	s.trigger(rule, "applied")
	s.sleepI(resp)
	s.trigger(rule, "returning")
	return finish()
}

func (l *link) Create(key string, value []byte, opts ...interface{}) (uint64, error) {
	rec, err := l.exec(OpCreate, key, value, 0, func(rec *OpRec) error {
		v, e := l.s.store.Create(key, value, rec.Actor)
		rec.Ver = v
		return e
	})
	if err != nil {
		return 0, err
	}
	return rec.Ver.Rev, nil
}

func (l *link) Update(key string, value []byte, rev uint64, opts ...interface{}) (uint64, error) {
	rec, err := l.exec(OpUpdate, key, value, rev, func(rec *OpRec) error {
		v, e := l.s.store.Update(key, value, rev, rec.Actor)
		rec.Ver = v
		return e
	})
	if err != nil {
		return 0, err
	}
	return rec.Ver.Rev, nil
}

func (l *link) Get(key string) (leader.Entry, error) {
	rec, err := l.exec(OpGet, key, nil, 0, func(rec *OpRec) error {
		v, e := l.s.store.Get(key)
		rec.Ver = v
		return e
	})
	if err != nil {
		return nil, err
	}
	return &entry{k: key, v: append([]byte(nil), rec.Ver.Value...), r: rec.Ver.Rev}, nil
}

func (l *link) Delete(key string) error {
	_, err := l.exec(OpDelete, key, nil, 0, func(rec *OpRec) error {
		rec.Ver = l.s.store.Delete(key, rec.Actor)
		return nil
	})
	return err
}

// linkRD is a link whose store also offers the revision-checked delete (leader.RevisionDeleter), as the
// library's NATS adapter does; a plain link stands for a custom store without it.
type linkRD struct{ *link }

func (l linkRD) DeleteRevision(key string, rev uint64) error {
	_, err := l.exec(OpDelete, key, nil, rev, func(rec *OpRec) error {
		v, e := l.s.store.DeleteRev(key, rev, rec.Actor)
		rec.Ver = v
		rec.CondDelete = true
		return e
	})
	return err
}

func (l *link) Watch(key string, opts ...interface{}) (leader.Watcher, error) {
	var lw *linkWatcher
	_, err := l.exec(OpWatch, key, nil, 0, func(rec *OpRec) error {
		s, in := l.s, l.o.in
		s.mu.Lock()
		n := in.watchCalls
		in.watchCalls++
		s.mu.Unlock()
		if n < in.spec.WatchFail && !s.tearing.Load() {
			// transient by construction (it ceases after WatchFail calls), whatever the error looks like
			switch in.spec.WatchFailErr {
			case "auth":
				return errors.New("nats: authentication expired")
			case "invalid":
				return errors.New("nats: invalid subscription")
			case "bucket":
				return nats.ErrBucketNotFound
			}
			return nats.ErrTimeout
		}
		w := s.store.Watch(key)
		s.mu.Lock()
		lw = &linkWatcher{l: l, w: w, out: make(chan leader.Entry, 256), stop: make(chan struct{}), id: s.watchID}
		s.watchID++
		rec.WatchID = lw.id
		s.watchers = append(s.watchers, lw)
		s.mu.Unlock()
		go lw.pump()
		return nil
	})
	if err != nil {
		return nil, err
	}
	return lw, nil
}

type linkWatcher struct {
	l       *link
	w       *refkv.Watcher
	out     chan leader.Entry
	stop    chan struct{}
	id      int
	mu      sync.Mutex
	stopped bool // Stop() called by the library
	killed  bool // channel closed by the store side (ActCloseWatch)
}

func (lw *linkWatcher) Updates() <-chan leader.Entry { return lw.out }

func (lw *linkWatcher) Stop() {
	lw.mu.Lock()
	if !lw.stopped {
		lw.stopped = true
		if !lw.killed {
			close(lw.stop)
		}
	}
	lw.mu.Unlock()
	lw.w.Stop()
}

// kill ends the watcher from the store's side: the pump returns and closes the
// update channel, as nats.go does when the watcher's subscription is closed.
func (lw *linkWatcher) kill() bool {
	lw.mu.Lock()
	defer lw.mu.Unlock()
	if !lw.stopped && !lw.killed {
		lw.killed = true
		close(lw.stop)
		return true
	}
	return false
}

func (lw *linkWatcher) isStopped() bool {
	lw.mu.Lock()
	defer lw.mu.Unlock()
	return lw.stopped
}

// pump delivers queued events in order, each after its delay; an event that
// falls into a partition window of the instance waits for the window's end.
func (lw *linkWatcher) pump() {
	s, in := lw.l.s, lw.l.o.in
	defer close(lw.out)
	initial := true
	for {
		ev, ok := lw.w.TryNext()
		if !ok {
			select {
			case <-lw.w.Ready():
				continue
			case <-lw.stop:
				return
			}
		}
		s.mu.Lock()
		ord := in.watchOrd
		in.watchOrd++
		var d time.Duration
		if n := len(in.spec.WatchDelay); n > 0 {
			d = in.spec.WatchDelay[in.watchDelay%n]
			in.watchDelay++
		}
		s.mu.Unlock()
		drop := false
		if !initial {
			if in.spec.DropAll {
				drop = true
			}
			for _, x := range in.spec.WatchDrop {
				if x == ord {
					drop = true
				}
			}
		}
		if ev.Marker {
			initial = false
		}
		if s.tearing.Load() {
			drop = false
			d = 0
		}
		// the delay counts from the change itself (network delay), not from the previous delivery: FIFO is
		// kept, but lag does not accumulate beyond the largest delay
		if !ev.At.IsZero() {
			if since := time.Since(ev.At); since < d {
				d -= since
			} else {
				d = 0
			}
		}
		if d > 0 {
			t := time.NewTimer(d)
			select {
			case <-t.C:
			case <-lw.stop:
				t.Stop()
				return
			case <-s.teardownCh:
				t.Stop()
			}
		}
		for !s.tearing.Load() {
			w := s.window(in.idx, s.now())
			if w == nil {
				break
			}
			if w.To == 0 {
				select {
				case <-lw.stop:
					return
				case <-s.teardownCh:
				}
				break
			}
			t := time.NewTimer(w.To - s.now())
			select {
			case <-t.C:
			case <-lw.stop:
				t.Stop()
				return
			case <-s.teardownCh:
				t.Stop()
			}
		}
		s.mu.Lock()
		s.tr.WatchEvs = append(s.tr.WatchEvs, &WatchEv{Seq: s.nextSeq(), T: s.now(), Obj: lw.l.o.idx, Inst: in.idx, WatchID: lw.id, Ev: ev, Dropped: drop, Ordinal: ord})
		s.mu.Unlock()
		if drop {
			continue
		}
		var e leader.Entry
		if !ev.Marker {
			e = &entry{k: ev.Key, v: append([]byte(nil), ev.Value...), r: ev.Rev}
		}
		select {
		case lw.out <- e:
		case <-lw.stop:
			return
		}
	}
}
