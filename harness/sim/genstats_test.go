package sim

import (
	"os"
	"testing"

	"pgregory.net/rapid"
)

// TestGenStats (development aid, VERIF_GENSTATS=1): how often the general generator produces the plan shapes
// that matter, and how often they come about in the run.
func TestGenStats(t *testing.T) {
	if os.Getenv("VERIF_GENSTATS") == "" {
		t.Skip("development aid")
	}
	n, withOverlap, happened, linger := 0, 0, 0, 0
	rapid.Check(t, func(rt *rapid.T) {
		p := GenPlan(rt, "all", knobsAll)
		n++
		ov := false
		for _, a := range p.Timeline {
			if a.Overlap {
				ov = true
			}
		}
		for _, in := range p.Instances {
			if in.PromoteLinger > 0 {
				linger++
				break
			}
		}
		if ov {
			withOverlap++
			tr := Run(t, p)
			if tr.OverlappingStarts() > 0 {
				happened++
			}
		}
	})
	t.Logf("plans=%d with an overlap start=%d overlapped in the run=%d with linger=%d", n, withOverlap, happened, linger)
}
