package sim

import (
	"strings"
	"fmt"
	"sort"
	"time"

	"verif/harness/refkv"
)

// Viol is one violation found by an oracle. Sig identifies the oracle clause
// and the mechanism (never just the property), Msg explains it.
type Viol struct {
	Sig string
	Msg string
	At  time.Duration
}

// Claim is one maximal interval during which an election object reported
// IsLeader()==true (from the flag-edge log).
type Claim struct {
	Obj, Inst  int
	FromSeq    int
	ToSeq      int // -1: still claiming at the end of the run
	FromT, ToT time.Duration
	Token      string
	Up, Down   *Edge
}

func (tr *Trace) Claims() []*Claim {
	open := map[int]*Claim{}
	var out []*Claim
	for _, e := range tr.Edges {
		if !e.Changed {
			continue
		}
		if e.Value {
			c := &Claim{Obj: e.Obj, Inst: e.Inst, FromSeq: e.Seq, ToSeq: -1, FromT: e.T, ToT: tr.TeardownEnd, Token: e.Token, Up: e}
			open[e.Obj] = c
			out = append(out, c)
		} else if c := open[e.Obj]; c != nil {
			c.ToSeq, c.ToT, c.Down = e.Seq, e.T, e
			delete(open, e.Obj)
		}
	}
	return out
}

// Own is one version of a key together with the interval during which it was
// the stored message (value or delete marker).
type Own struct {
	Ver     *refkv.Version
	Op      *OpRec // the operation that wrote it
	FromT   time.Duration
	FromSeq int
	ToT     time.Duration // superseded or expired
	ToSeq   int           // sequence number of the superseding application, -1 when it expired (or never ended)
	Expired bool
	P       *Payload
	Lib     LibView
	LibOK   bool
}

func (o *Own) Live() bool { return !o.Ver.Tomb }

// Ownership lists the versions of key in order.
func (tr *Trace) Ownership(key string) []*Own {
	t0 := tr.StartAt
	byVer := map[*refkv.Version]*OpRec{}
	for _, op := range tr.Ops {
		if op.Applied && op.Ver != nil && op.Kind != OpGet && op.Kind != OpWatch {
			byVer[op.Ver] = op
		}
	}
	var out []*Own
	for _, v := range tr.History {
		if v.Key != key {
			continue
		}
		o := &Own{Ver: v, Op: byVer[v], FromT: v.WrittenAt.Sub(t0), ToSeq: -1}
		if o.Op != nil {
			o.FromSeq = o.Op.ApplySeq
		}
		o.ToT = 1<<62 - 1
		if tr.Plan.TTL > 0 {
			o.ToT = o.FromT + tr.Plan.StoreTTL()
			o.Expired = true
		}
		if !v.Tomb {
			o.P = ParsePayload(v.Value)
			o.Lib, o.LibOK = DecodeLib(v.Value)
		}
		if n := len(out); n > 0 {
			prev := out[n-1]
			if o.FromT < prev.ToT {
				prev.ToT, prev.ToSeq, prev.Expired = o.FromT, o.FromSeq, false
			}
		}
		out = append(out, o)
	}
	return out
}

func (tr *Trace) ID(inst int) string { return tr.Plan.Instances[inst].ID }

func (tr *Trace) ObjInst() map[int]int {
	m := map[int]int{}
	for _, s := range tr.Snaps {
		for _, si := range s.Insts {
			m[si.Obj] = si.Inst
		}
	}
	return m
}

// PlanFaultFree: no injected fault, partition, outside write, connection
// notification or unhealthy result anywhere in the plan.
func (p *Plan) FaultFree() bool {
	if len(p.Windows) > 0 || len(p.Stalls) > 0 {
		return false
	}
	for _, in := range p.Instances {
		for _, r := range in.Rules {
			if r.Fault != FaultNone {
				return false
			}
			if r.Trigger != nil {
				switch r.Trigger.Action.Kind {
				case ActStart, ActStop, ActStopCtx, ActCancelCtx:
				default:
					return false
				}
				if f := r.Trigger.Follow; f != nil && f.Kind != ActStart && f.Kind != ActStop && f.Kind != ActStopCtx && f.Kind != ActCancelCtx {
					return false
				}
			}
		}
		if in.DropAll || len(in.WatchDrop) > 0 || in.WatchFail > 0 {
			return false
		}
		for _, h := range in.Health {
			// 0 = healthy at once, 2 = healthy when the check's 100ms context expires: both are healthy answers
			if h != 0 && h != 2 {
				return false
			}
		}
	}
	for _, lr := range p.LogRules {
		switch lr.Action.Kind {
		case ActStart, ActStop, ActStopCtx, ActCancelCtx:
		default:
			return false
		}
	}
	for _, a := range p.Timeline {
		switch a.Kind {
		case ActStart, ActStop, ActStopCtx, ActProbe, ActCancelCtx, ActSetHandler:
		default:
			return false
		}
	}
	return true
}

// MaxRTT is the largest request+response latency any operation of the plan can get.
func (p *Plan) MaxRTT() time.Duration {
	var m time.Duration
	for _, in := range p.Instances {
		var a, b time.Duration
		for i, l := range in.Lat {
			// consecutive pairs (req, resp) are consumed round-robin, so any adjacent pair can occur
			n := in.Lat[(i+1)%len(in.Lat)]
			if l+n > a+b {
				a, b = l, n
			}
		}
		if a+b > m {
			m = a + b
		}
		for _, r := range in.Rules {
			if r.SetLat && r.ReqLat+r.RespLat > m {
				m = r.ReqLat + r.RespLat
			}
		}
		if in.SlowWinAnswer > m {
			m = in.SlowWinAnswer
		}
	}
	return m
}

// InstMaxRTT is MaxRTT restricted to one instance.
func (p *Plan) InstMaxRTT(i int) time.Duration {
	q := *p
	q.Instances = []Inst{p.Instances[i]}
	return q.MaxRTT()
}

func (p *Plan) AnyTakeover() bool {
	for _, in := range p.Instances {
		if in.Takeover {
			return true
		}
	}
	return false
}

func (tr *Trace) excerpt(at time.Duration, span time.Duration) string {
	from := at - span
	if from < 0 {
		from = 0
	}
	return tr.Timeline(from, at+span/4, true)
}

func fmtVer(v *refkv.Version) string {
	if v == nil {
		return "none"
	}
	if v.Tomb {
		return fmt.Sprintf("rev %d delete-marker by %s", v.Rev, v.Actor)
	}
	val := v.Value
	if len(val) > 100 {
		val = val[:100]
	}
	return fmt.Sprintf("rev %d by %s %q", v.Rev, v.Actor, val)
}

func sortViols(vs []Viol) {
	sort.SliceStable(vs, func(i, j int) bool { return vs[i].At < vs[j].At })
}

// OverlappingStarts counts the Start calls that began while a Stop / StopWithContext call on the same
// election object had begun and not yet returned.
func (tr *Trace) OverlappingStarts() int {
	n := 0
	for _, a := range tr.APIs {
		if a.Call != "Start" {
			continue
		}
		for _, b := range tr.APIs {
			if b.Obj == a.Obj && (b.Call == "Stop" || b.Call == "StopWithContext") && (b.Action == nil || b.Action.Kind != ActCancelCtx) &&
				b.CallSeq < a.CallSeq && (b.RetSeq < 0 || b.RetSeq > a.CallSeq) {
				n++
				break
			}
		}
	}
	return n
}

// stopOverlappedByStart returns a Stop / StopWithContext call on obj that began in (after, before) and during
// which (before its return, and before seq `before`) a Start call on the same object began.
func (tr *Trace) stopOverlappedByStart(obj, after, before int) *APIRec {
	for _, b := range tr.APIs {
		if b.Obj != obj || (b.Call != "Stop" && b.Call != "StopWithContext") || (b.Action != nil && b.Action.Kind == ActCancelCtx) ||
			b.CallSeq <= after || b.CallSeq >= before {
			continue
		}
		for _, a := range tr.APIs {
			if a.Obj == obj && a.Call == "Start" && a.CallSeq > b.CallSeq && a.CallSeq < before && (b.RetSeq < 0 || a.CallSeq < b.RetSeq) {
				return b
			}
		}
	}
	return nil
}

// PreemptionPossible: some takeover-enabled instance outranks another instance of its group (with one common
// priority nobody may preempt anybody, whatever the takeover flags say).
func (p *Plan) PreemptionPossible() bool {
	for _, a := range p.Instances {
		for _, b := range p.Instances {
			if a.Takeover && a.Group == b.Group && a.Priority > b.Priority {
				return true
			}
		}
	}
	return false
}

// overlappedLeaderStops: the Stop / StopWithContext calls on obj that began while it led and during which a
// Start call on the same object began.
func (tr *Trace) overlappedLeaderStops(obj int) []*APIRec {
	var out []*APIRec
	for _, b := range tr.APIs {
		if b.Obj != obj || (b.Call != "Stop" && b.Call != "StopWithContext") || (b.Action != nil && b.Action.Kind == ActCancelCtx) || !b.WasLeaderAtCall {
			continue
		}
		for _, a := range tr.APIs {
			if a.Obj == obj && a.Call == "Start" && a.CallSeq > b.CallSeq && (b.RetSeq < 0 || a.CallSeq < b.RetSeq) {
				out = append(out, b)
				break
			}
		}
	}
	return out
}

// baseRTT is the largest request+response latency of the instances' ordinary latency lists (rules that set
// the latency of single operations are not counted).
func (p *Plan) baseRTT() time.Duration {
	var m time.Duration
	for _, in := range p.Instances {
		for i, l := range in.Lat {
			if n := in.Lat[(i+1)%len(in.Lat)]; l+n > m {
				m = l + n
			}
		}
	}
	return m
}

// plainDeleteLosses: the instants at which a graceful shutdown deleted another party's live record of the
// group through a store without revision-checked delete (the known finding of C01: look and delete are two
// store operations there). What follows - a successor claiming without a record, a third instance creating
// the key next to it - is that finding's consequence, not a defect of its own.
func (tr *Trace) plainDeleteLosses(group string) []time.Duration {
	if !tr.Plan.PlainDelete {
		return nil
	}
	var out []time.Duration
	for _, op := range tr.Ops {
		if op.Obj >= 0 && op.Kind == OpDelete && op.Applied && op.InStopCtxDelete && op.Key == group && op.PrevLive != nil && op.PrevLive.Actor != op.Actor {
			out = append(out, op.ApplyT)
		}
	}
	return out
}

// markPlainDeleteConsequences gives the violations that fall into the aftermath of such a loss (until the
// record's lifetime plus the detection bound have passed) a signature of their own.
func (tr *Trace) markPlainDeleteConsequences(v *Verdict, prop string) {
	p := tr.Plan
	for _, g := range p.Groups() {
		for _, tk := range tr.plainDeleteLosses(g) {
			until := tk + p.TTL + p.H + 2*p.HeartbeatTimeout() + 2*p.MaxRTT()
			for i := range v.Viols {
				if v.Viols[i].At >= tk && v.Viols[i].At <= until && !strings.Contains(v.Viols[i].Sig, "(consequence of known finding C01)") {
					v.Viols[i].Msg = v.Viols[i].Sig + ": " + v.Viols[i].Msg
					v.Viols[i].Sig = prop + " aftermath of a graceful shutdown that deleted the successor's record through a store without revision-checked delete (consequence of known finding C01)"
				}
			}
		}
	}
}
