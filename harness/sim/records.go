package sim

import (
	"bytes"
	"encoding/json"
	"fmt"
	"regexp"
	"strconv"
	"strings"

	"pgregory.net/rapid"
)

// Record values written by the simulated outside party come from a descriptor
// grammar. Tokens are only known at run time, so values may contain
// placeholders that are substituted when the write is applied:
//
//	§T<i>§  current Token() of instance i's current election object
//	§P<i>§  token of the previous term of instance i (or a fresh string)
//	§N<i>§  near miss: current token with its last character changed
//	§E<i>§  current token with its first character spelled as a \u00XX escape
//	§PAD<n>§ n bytes of padding
var phRe = regexp.MustCompile(`§(T|P|N|E|PAD)(\d+)§`)

func (s *Sim) substitute(v []byte) []byte {
	if !bytes.Contains(v, []byte("§")) {
		return v
	}
	return phRe.ReplaceAllFunc(v, func(m []byte) []byte {
		sm := phRe.FindSubmatch(m)
		n, _ := strconv.Atoi(string(sm[2]))
		kind := string(sm[1])
		if kind == "PAD" {
			return bytes.Repeat([]byte("x"), n)
		}
		tok := ""
		var prev string
		if n < len(s.insts) {
			if o := s.current(n); o != nil {
				tok = o.el.Token()
			}
			s.mu.Lock()
			for _, t := range s.tr.Terms {
				if t.Inst == n && t.Token != tok {
					prev = t.Token
				}
			}
			s.mu.Unlock()
		}
		if tok == "" {
			tok = fmt.Sprintf("no-token-%d", n)
		}
		switch kind {
		case "T":
			return []byte(tok)
		case "P":
			if prev == "" {
				prev = fmt.Sprintf("no-previous-token-%d", n)
			}
			return []byte(prev)
		case "N":
			b := []byte(tok)
			if b[len(b)-1] == 'z' {
				b[len(b)-1] = 'y'
			} else {
				b[len(b)-1] = 'z'
			}
			return b
		case "E":
			return []byte(fmt.Sprintf(`\u%04x%s`, tok[0], tok[1:]))
		}
		return m
	})
}

// GenRecordValue draws a record value (possibly with placeholders) and a short
// description of its shape.
func GenRecordValue(t *rapid.T, p *Plan) ([]byte, string) {
	n := len(p.Instances)
	i := rapid.IntRange(0, n-1).Draw(t, "rv_inst")
	j := rapid.IntRange(0, n-1).Draw(t, "rv_other")
	id := p.Instances[i].ID
	oid := p.Instances[j].ID
	q := func(s string) string { b, _ := json.Marshal(s); return string(b) }
	tok := fmt.Sprintf(`"§T%d§"`, i)
	type shape struct {
		desc string
		val  string
	}
	wrongTypes := []string{`1`, `true`, `null`, `{}`, `[]`, `1.5e3`, `{"a":"b"}`, `["§T` + strconv.Itoa(i) + `§"]`}
	wt := rapid.SampledFrom(wrongTypes).Draw(t, "rv_wt")
	prio := rapid.SampledFrom([]int{0, 1, 2, 3, 100, -1}).Draw(t, "rv_prio")
	shapes := []shape{
		{"canonical(own id, own token)", fmt.Sprintf(`{"id":%s,"token":%s}`, q(id), tok)},
		{"canonical+priority", fmt.Sprintf(`{"id":%s,"token":%s,"priority":%d}`, q(id), tok, prio)},
		{"reordered+extra+whitespace", fmt.Sprintf(" {\n\t\"extra\": [1,2,{\"token\":\"x\"}], \"token\" : %s ,\"id\":%s } ", tok, q(id))},
		{"previous-term token", fmt.Sprintf(`{"id":%s,"token":"§P%d§"}`, q(id), i)},
		{"near-miss token", fmt.Sprintf(`{"id":%s,"token":"§N%d§"}`, q(id), i)},
		{"escaped spelling of own token", fmt.Sprintf(`{"id":%s,"token":"§E%d§"}`, q(id), i)},
		{"other instance's id, own token", fmt.Sprintf(`{"id":%s,"token":%s}`, q(oid+"x"), tok)},
		{"another participant's well-formed payload", fmt.Sprintf(`{"id":%s,"token":"§T%d§","priority":%d}`, q(oid), j, prio)},
		{"phantom payload", fmt.Sprintf(`{"id":"phantom","token":"phantom-token","priority":%d}`, prio)},
		{"token wrong type", fmt.Sprintf(`{"id":%s,"token":%s}`, q(id), wt)},
		{"id wrong type", fmt.Sprintf(`{"id":%s,"token":%s}`, wt, tok)},
		{"priority wrong type", fmt.Sprintf(`{"id":%s,"token":%s,"priority":"high"}`, q(id), tok)},
		{"phantom payload, priority in another number notation or beyond int64", fmt.Sprintf(`{"id":"phantom","token":"phantom-token","priority":%s}`,
			rapid.SampledFrom([]string{"1e19", "9223372036854775808", "18446744073709551615", "1e300", "-1e19", "10.0", "1e1", "2.5", "9007199254740993"}).Draw(t, "rv_bignum"))},
		{"token missing", fmt.Sprintf(`{"id":%s}`, q(id))},
		{"id missing", fmt.Sprintf(`{"token":%s}`, tok)},
		{"duplicate token key, own last", fmt.Sprintf(`{"id":%s,"token":"x","token":%s}`, q(id), tok)},
		{"duplicate token key, own first", fmt.Sprintf(`{"id":%s,"token":%s,"token":"x"}`, q(id), tok)},
		{"case-variant keys", fmt.Sprintf(`{"ID":%s,"Token":%s}`, q(id), tok)},
		{"array", fmt.Sprintf(`[%s,%s]`, q(id), tok)},
		{"scalar string", tok},
		{"null", `null`},
		{"number", `42`},
		{"empty object", `{}`},
		{"not JSON (unquoted)", fmt.Sprintf(`{id:%s,token:%s}`, id, tok)},
		{"truncated canonical", fmt.Sprintf(`{"id":%s,"token":"§T%d§`, q(id), i)},
		{"BOM + canonical", "\xef\xbb\xbf" + fmt.Sprintf(`{"id":%s,"token":%s}`, q(id), tok)},
		{"empty value", ``},
		{"whitespace only", "  \n"},
		{"invalid UTF-8 in token", fmt.Sprintf(`{"id":%s,"token":"\xff\xfe§T%d§"}`, q(id), i)},
		{"deep nesting", strings.Repeat("[", 3000) + strings.Repeat("]", 3000)},
		{"large padded canonical", fmt.Sprintf(`{"id":%s,"token":%s,"pad":"§PAD262144§"}`, q(id), tok)},
		{"large garbage", "§PAD1048576§"},
	}
	k := rapid.IntRange(0, len(shapes)+2).Draw(t, "rv_shape")
	if k >= len(shapes) {
		b := rapid.SliceOfN(rapid.Byte(), 0, 40).Draw(t, "rv_bytes")
		return b, "raw bytes"
	}
	return []byte(shapes[k].val), shapes[k].desc
}

// Payload is the harness's own reading of a record value (independent of the
// library's struct): nil when the bytes are not a JSON object.
type Payload struct {
	IDs, Tokens []string // every string-valued "id" / "token" member, in order (duplicates kept)
	Priority    int      // last integer-valued "priority" member (struct semantics), 0 otherwise
	Canonical   bool     // exactly the library's own encoding of (id, token[, priority])
}

// ParsePayload reads the top level of a JSON object with the token-stream
// decoder (so duplicate keys are all seen). Keys are compared exactly.
func ParsePayload(b []byte) *Payload {
	dec := json.NewDecoder(bytes.NewReader(b))
	tk, err := dec.Token()
	if err != nil {
		return nil
	}
	if d, ok := tk.(json.Delim); !ok || d != '{' {
		return nil
	}
	p := &Payload{}
	for dec.More() {
		kt, err := dec.Token()
		if err != nil {
			return nil
		}
		key, ok := kt.(string)
		if !ok {
			return nil
		}
		var raw json.RawMessage
		if err := dec.Decode(&raw); err != nil {
			return nil
		}
		switch key {
		case "id", "token":
			var s string
			if len(raw) > 0 && raw[0] == '"' && json.Unmarshal(raw, &s) == nil {
				if key == "id" {
					p.IDs = append(p.IDs, s)
				} else {
					p.Tokens = append(p.Tokens, s)
				}
			}
		case "priority":
			var n int
			if json.Unmarshal(raw, &n) == nil {
				p.Priority = n
			}
		}
	}
	if _, err := dec.Token(); err != nil { // closing brace
		return nil
	}
	if _, err := dec.Token(); err == nil { // trailing data
		return nil
	}
	if len(p.IDs) == 1 && len(p.Tokens) == 1 {
		type canon struct {
			ID       string `json:"id"`
			Token    string `json:"token"`
			Priority int    `json:"priority,omitempty"`
		}
		c, _ := json.Marshal(canon{p.IDs[0], p.Tokens[0], p.Priority})
		p.Canonical = bytes.Equal(c, b)
	}
	return p
}

// Contains: the record value is a JSON object with a string member "id" equal
// to id and a string member "token" equal to token.
func Contains(b []byte, id, token string) bool {
	p := ParsePayload(b)
	if p == nil {
		return false
	}
	okID, okTok := false, false
	for _, x := range p.IDs {
		okID = okID || x == id
	}
	for _, x := range p.Tokens {
		okTok = okTok || x == token
	}
	return okID && okTok
}

// LibView is how the library's struct decoding (case-insensitive field match,
// last duplicate wins) reads a value; used only to decide what the *library*
// is entitled to treat as "stored priority" (C01/C10: undecodable => 0).
type LibView struct {
	ID       string `json:"id"`
	Token    string `json:"token"`
	Priority int    `json:"priority,omitempty"`
}

func DecodeLib(b []byte) (LibView, bool) {
	var v LibView
	if err := json.Unmarshal(b, &v); err != nil {
		return v, false
	}
	return v, true
}

// Definitely: the value is a JSON object with exactly one string "id" member and exactly one string
// "token" member, equal to id and token (no duplicate keys that different decoders resolve differently).
func Definitely(b []byte, id, token string) bool {
	p := ParsePayload(b)
	return p != nil && len(p.IDs) == 1 && len(p.Tokens) == 1 && p.IDs[0] == id && p.Tokens[0] == token && !hasDuplicateIDOrTokenKey(b)
}

func hasDuplicateIDOrTokenKey(b []byte) bool {
	dec := json.NewDecoder(bytes.NewReader(b))
	if tk, err := dec.Token(); err != nil || tk != json.Delim('{') {
		return false
	}
	n := map[string]int{}
	for dec.More() {
		kt, err := dec.Token()
		if err != nil {
			return false
		}
		k, _ := kt.(string)
		var raw json.RawMessage
		if dec.Decode(&raw) != nil {
			return false
		}
		n[strings.ToLower(k)]++
	}
	return n["id"] > 1 || n["token"] > 1
}
