package sim

import (
	"fmt"
	"sort"
	"strings"
	"time"
)

// Timeline renders the trace as one line per event, ordered by sequence number
// (used in violation messages and evidence samples).
func (tr *Trace) Timeline(from, to time.Duration, withLogs bool) string {
	type line struct {
		seq int
		s   string
	}
	var ls []line
	add := func(seq int, t time.Duration, f string, a ...any) {
		if t < from || (to > 0 && t > to) {
			return
		}
		ls = append(ls, line{seq, fmt.Sprintf("%12v  %s", t, fmt.Sprintf(f, a...))})
	}
	val := func(b []byte) string {
		if len(b) > 90 {
			return fmt.Sprintf("%q…(%d bytes)", b[:60], len(b))
		}
		return fmt.Sprintf("%q", b)
	}
	for _, o := range tr.Ops {
		who := o.Actor
		if o.Obj >= 0 {
			who = fmt.Sprintf("%s#%d", o.Actor, o.Obj)
		}
		add(o.IssueSeq, o.IssueT, "op%-3d %-8s issue  %s %s exp=%d %s g%d", o.ID, who, o.Kind, o.Key, o.Exp, val(o.Payload), o.Gid)
		if o.ApplySeq >= 0 && o.Obj >= 0 {
			r := "rejected"
			if o.Applied && o.Ver != nil {
				r = fmt.Sprintf("rev=%d", o.Ver.Rev)
			}
			add(o.ApplySeq, o.ApplyT, "op%-3d %-8s apply  %s -> %s", o.ID, who, o.Kind, r)
		}
		if o.ReturnSeq >= 0 && o.Obj >= 0 {
			add(o.ReturnSeq, o.ReturnT, "op%-3d %-8s return %s err=%q fault=%q", o.ID, who, o.Kind, o.Err, o.Fault)
		}
	}
	for _, e := range tr.Edges {
		if !e.Changed {
			continue
		}
		live := "none"
		if e.Live != nil {
			live = fmt.Sprintf("rev %d by %s", e.Live.Rev, e.Live.Actor)
		}
		add(e.Seq, e.T, "EDGE  %s#%d IsLeader=%v claims=%v live=%s", tr.Plan.Instances[e.Inst].ID, e.Obj, e.Value, e.Claims, live)
	}
	for _, c := range tr.CBs {
		add(c.Seq, c.T, "CB    %s#%d %s token=%.8s", tr.Plan.Instances[c.Inst].ID, c.Obj, c.Kind, c.Token)
	}
	for _, a := range tr.APIs {
		add(a.CallSeq, a.CallT, "API   %s#%d %s call", tr.Plan.Instances[a.Inst].ID, a.Obj, a.Call)
		if a.RetSeq >= 0 {
			add(a.RetSeq, a.RetT, "API   %s#%d %s -> %v err=%q", tr.Plan.Instances[a.Inst].ID, a.Obj, a.Call, a.Bool, a.Err)
		}
	}
	for _, n := range tr.Notifs {
		add(n.Seq, n.T, "NOTIF %s#%d %s", tr.Plan.Instances[n.Inst].ID, n.Obj, n.Kind)
	}
	for _, h := range tr.Healths {
		add(h.Seq, h.T, "HEALTH %s#%d check %d script=%d", tr.Plan.Instances[h.Inst].ID, h.Obj, h.N, h.Script)
	}
	for _, w := range tr.WatchEvs {
		add(w.Seq, w.T, "WATCH %s#%d w%d ev marker=%v rev=%d del=%v dropped=%v", tr.Plan.Instances[w.Inst].ID, w.Obj, w.WatchID, w.Ev.Marker, w.Ev.Rev, w.Ev.Delete, w.Dropped)
	}
	if withLogs {
		for _, sn := range tr.Snaps {
			for _, si := range sn.Insts {
				add(sn.Seq, sn.T, "SNAP  %s#%d state=%s leader=%v leaderID=%q rev=%d started=%v instop=%v", tr.Plan.Instances[si.Inst].ID, si.Obj, si.State, si.IsLeader, si.StLeaderID, si.Revision, si.Started, si.InStop)
			}
		}
	}
	for _, w := range tr.WatchCloses {
		add(w.Seq, w.T, "WATCH %s#%d w%d channel closed by the store side", tr.Plan.Instances[w.Inst].ID, w.Obj, w.WatchID)
	}
	if withLogs {
		for _, l := range tr.Logs {
			var fs []string
			for k, v := range l.Fields {
				fs = append(fs, k+"="+v)
			}
			sort.Strings(fs)
			add(l.Seq, l.T, "LOG   %s#%d %s %s g%d", tr.Plan.Instances[l.Inst].ID, l.Obj, l.Msg, strings.Join(fs, " "), l.Gid)
		}
	}
	sort.Slice(ls, func(i, j int) bool { return ls[i].seq < ls[j].seq })
	var sb strings.Builder
	for _, l := range ls {
		sb.WriteString(l.s)
		sb.WriteByte('\n')
	}
	return sb.String()
}
