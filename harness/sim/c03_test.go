package sim

import (
	"fmt"
	"testing"
	"time"

	"pgregory.net/rapid"
)

// C03 grid cell: a leader settled for k-1 successful heartbeats, then a fault of kind f from attempt k on.
type c03Cell struct {
	H        time.Duration
	Ratio    int
	VI       int // 0 default, 1 = H, 3 = 3H
	K        int
	Fault    string
	Follower bool
	Prior    bool // an earlier refresh of the same term whose store call stays blocked (request lost) while later ones succeed
	Flap     bool // a health checker that answers unhealthy once, on the tick after the second failing attempt
	MCF      int  // MaxConsecutiveFailures set although no health checker is configured (it must not matter)
	Second   bool // the fault hits the instance's second term: the first ended by the heartbeat's own discovery of an outside deletion, with an OnDemote that takes 1.2s, during which the instance re-acquired the key
}

var c03Faults = []string{"err-timeout", "err-noresponders", "err-closed", "hang", "acklost-once", "acklost-window", "partition-forever", "replaced", "replaced-canonical-other", "deleted"}
var c03Hs = []time.Duration{200 * time.Millisecond, 700 * time.Millisecond, 2 * time.Second, 3 * time.Second}

func c03Plan(c c03Cell, lat []time.Duration, phase time.Duration) *Plan {
	ttl := time.Duration(c.Ratio) * c.H
	p := &Plan{Profile: "c03-grid", H: c.H, TTL: ttl, SnapEvery: odd(c.H/3 + 11*time.Microsecond), Dice: []float64{0.5}}
	l := Inst{ID: "L", Group: "g", Lat: lat, Promote: 1}
	switch c.VI {
	case 1:
		l.VI = c.H
	case 3:
		l.VI = 3 * c.H
	}
	p.Instances = []Inst{l}
	p.Timeline = []Action{{At: 1, Kind: ActStart, Inst: 0}}
	if c.Follower {
		p.Instances = append(p.Instances, Inst{ID: "F", Group: "g", Lat: []time.Duration{1, 3}})
		p.Timeline = append(p.Timeline, Action{At: odd(c.H / 2), Kind: ActStart, Inst: 1})
	}
	// the k-th heartbeat is issued at about start + k*H
	tFault := time.Duration(c.K)*c.H - c.H/2 + phase
	if c.Second {
		// term 1 ends at its second heartbeat (the record was deleted from outside half an interval earlier);
		// the periodic check of the watch loop that starts then re-acquires the key about 555ms later
		p.Instances[0].DemoteDur = 1200 * time.Millisecond
		p.Timeline = append(p.Timeline, Action{At: odd(c.H + c.H/2), Kind: ActExtDelete, Inst: -1, Key: "g"})
		tFault += 2*c.H + 555*time.Millisecond
	}
	switch c.Fault {
	case "err-timeout", "err-noresponders", "err-closed":
		p.Windows = []Window{{Inst: 0, From: tFault, Mode: FaultErr, ErrKind: c.Fault[4:]}}
	case "hang":
		p.Windows = []Window{{Inst: 0, From: tFault, Mode: FaultTimeout}}
	case "acklost-once":
		p.Instances[0].Rules = []OpRule{{Kind: OpUpdate, N: c.K - 1, Fault: FaultAckLost}}
	case "acklost-window":
		p.Windows = []Window{{Inst: 0, From: tFault, Mode: FaultAckLost}}
	case "partition-forever":
		p.Windows = []Window{{Inst: 0, From: tFault, Mode: FaultErr, ErrKind: ErrKNoResponders}}
		if c.Follower {
			p.Windows = append(p.Windows, Window{Inst: 1, From: tFault + ttl, To: tFault + ttl + 1, Mode: FaultErr})
		}
	case "replaced":
		p.Timeline = append(p.Timeline, Action{At: odd(tFault), Kind: ActExtPut, Inst: -1, Key: "g", Value: []byte(`{"id":"intruder","token":"zzz","priority":9}`), Desc: "phantom payload"})
	case "replaced-canonical-other":
		p.Timeline = append(p.Timeline, Action{At: odd(tFault), Kind: ActExtPut, Inst: -1, Key: "g", Value: []byte(`{"id":"L","token":"§N0§"}`), Desc: "near-miss token"})
	case "deleted":
		p.Timeline = append(p.Timeline, Action{At: odd(tFault), Kind: ActExtDelete, Inst: -1, Key: "g"})
	}
	if c.Flap {
		// ticks are numbered from 1; attempts K and K+1 fail, tick K+2 is skipped as unhealthy, the attempt of
		// tick K+3 is the third consecutive failed one
		p.Instances[0].HasHealth, p.Instances[0].MCF = true, 3
		p.Instances[0].Health = make([]int, c.K+2)
		p.Instances[0].Health[c.K+1] = 1
	}
	if c.MCF != 0 && !c.Flap {
		p.Instances[0].MCF = c.MCF
	}
	if c.Prior && c.K >= 3 {
		// refresh #0 of the term never gets an answer within the run; the library times it out and carries on
		p.HangFor = 10 * time.Minute
		p.Instances[0].Rules = append(p.Instances[0].Rules, OpRule{Kind: OpUpdate, N: 0, Fault: FaultTimeout})
	}
	p.Horizon = tFault + 4*c.H + 4*p.HeartbeatTimeout() + ttl + 6*time.Second
	p.Note = fmt.Sprintf("%+v", c)
	return p
}

func c03Grid() []c03Cell {
	var out []c03Cell
	for _, h := range c03Hs {
		for _, ratio := range []int{3, 5} {
			for _, vi := range []int{0, 1, 3} {
				for k := 1; k <= 6; k++ {
					for _, f := range c03Faults {
						for _, fol := range []bool{false, true} {
							out = append(out, c03Cell{h, ratio, vi, k, f, fol, false, false, 0, false})
							if k >= 3 {
								out = append(out, c03Cell{h, ratio, vi, k, f, fol, true, false, 0, false})
							}
							if f == "err-timeout" || f == "hang" || f == "partition-forever" {
								out = append(out, c03Cell{h, ratio, vi, k, f, fol, false, true, 0, false})
							}
							if !fol && ratio == 3 && vi == 0 && (k == 1 || k == 3) && (f == "deleted" || f == "replaced" || f == "err-timeout" || f == "hang") {
								out = append(out, c03Cell{h, ratio, vi, k, f, fol, false, false, 0, true})
							}
							if f == "err-timeout" || f == "hang" || f == "partition-forever" || f == "acklost-window" {
								out = append(out, c03Cell{h, ratio, vi, k, f, fol, false, false, 1, false}, c03Cell{h, ratio, vi, k, f, fol, false, false, 8, false})
							}
						}
					}
				}
			}
		}
	}
	return out
}

func TestC03(t *testing.T) {
	grid := c03Grid()
	RunCheck(t, CheckSpec{Prop: "C03",
		Rule:        fmt.Sprintf("fault grid: heartbeat interval H in %v (time-out max(H/2,1s) switches at H=2s) x TTL/H in {3,5} x ValidationInterval in {default 5s, H, 3H} x attempt index k in 1..6 at which the fault begins x fault kind in %v x with/without a live follower x (for k>=3) with/without an earlier refresh of the term whose store call stays blocked for ever x (for the unreachable-store kinds) with/without a health checker that answers unhealthy once between the second and the third failing attempt x (for those kinds and lost acknowledgements) MaxConsecutiveFailures in {unset, 1, 8} with no health checker configured, plus cells in which the fault hits the instance's second term (the first ended by an outside deletion, OnDemote taking 1.2s while the key was re-acquired) = %d cells; thorough enumerates every cell (sharded) with a fixed latency vector and adds generated latencies and ticker phases; quick runs a seeded sample of cells with generated latencies. Oracle: exact virtual-time bounds of both clauses (next heartbeat attempt / t_c+H+2T; third consecutive failed attempt / last successful refresh + 3H+3T), OnDemote entered, and no heartbeat-caused demotion after fewer than three transient failures. Non-trivial = the plan produced a record change under a leader or three consecutive failed refreshes; distinct by plan hash.", c03Hs, c03Faults, len(grid)),
		Assumptions: []string{"clause 1 is judged only for instances without injected link faults (the statement's 'store still answers')"},
		Fixed: func() []*Plan {
			if tier() != "thorough" {
				return nil
			}
			k, n := shard()
			var ps []*Plan
			for i, c := range grid {
				if i%n == k {
					ps = append(ps, c03Plan(c, []time.Duration{3 * time.Millisecond, 5 * time.Millisecond}, 0))
				}
			}
			return ps
		},
		Gen: func(t *rapid.T) *Plan {
			c := grid[rapid.IntRange(0, len(grid)-1).Draw(t, "cell")]
			T := c.H / 2
			if T < time.Second {
				T = time.Second
			}
			lat := genLatList(t, min(T/2, c.H/2), "lat")
			phase := time.Duration(rapid.Int64Range(-int64(c.H/2)+1, int64(c.H/2)-1).Draw(t, "phase"))
			return c03Plan(c, lat, phase)
		},
		Oracle: OracleC03})
}
