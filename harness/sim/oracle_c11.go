package sim

import (
	"fmt"
	"time"
)

func (p *Plan) graceOf(i int) time.Duration {
	g := p.Instances[i].Grace
	if g == 0 {
		g = 3 * p.H
		if g < 5*time.Second {
			g = 5 * time.Second
		}
	}
	return g
}

// OracleC11: disconnect grace period and reconnect verification.
func OracleC11(tr *Trace) Verdict {
	p := tr.Plan
	v := Verdict{Premise: true}
	ci := tr.causes()
	claims := tr.Claims()
	claimAt := func(obj, seq int) *Claim {
		for _, c := range claims {
			if c.Obj == obj && c.FromSeq < seq && (c.ToSeq < 0 || c.ToSeq > seq) {
				return c
			}
		}
		return nil
	}
	notifs := map[int][]*NotifRec{}
	for _, n := range tr.Notifs {
		if n.Delivered {
			notifs[n.Obj] = append(notifs[n.Obj], n)
		}
	}
	demoteBy := func(obj, afterSeq int, by time.Duration) bool {
		for _, cb := range tr.CBs {
			if cb.Obj == obj && cb.Kind == "demote-enter" && cb.Seq > afterSeq && cb.T <= by {
				return true
			}
		}
		return false
	}
	// (1) a grace demotion never happens before t_D + G
	for _, c := range claims {
		if c.ToSeq < 0 || c.ToT >= tr.End || ci.CauseOf(c.Down) != CauseGrace {
			continue
		}
		G := p.graceOf(c.Inst)
		// the latest disconnect notification before the demotion, whatever the instance was when it arrived
		// (the statement counts from the latest notification), and a reconnect notification after it
		var last, reconn *NotifRec
		for _, n := range notifs[c.Obj] {
			if n.Kind == ActDisconnect && n.Seq < c.ToSeq {
				last, reconn = n, nil
			}
			if n.Kind == ActReconnect && last != nil && n.Seq < c.ToSeq && n.T < c.ToT {
				reconn = n
			}
		}
		who := fmt.Sprintf("%s#%d", tr.ID(c.Inst), c.Obj)
		if last != nil && reconn != nil {
			v.Viols = append(v.Viols, Viol{At: c.ToT, Sig: "C11 grace-demotion-after-reconnect",
				Msg: fmt.Sprintf("%s was demoted by the grace mechanism at %v although a reconnect notification had arrived at %v, after its latest disconnect notification (%v)", who, c.ToT, reconn.T, last.T)})
			continue
		}
		if last == nil {
			v.Viols = append(v.Viols, Viol{At: c.ToT, Sig: "C11 grace-demotion-without-disconnect", Msg: fmt.Sprintf("%s was demoted by the grace mechanism at %v but no disconnect notification reached it as a leader before", who, c.ToT)})
		} else if c.ToT < last.T+G {
			v.Viols = append(v.Viols, Viol{At: c.ToT, Sig: "C11 grace-demotion-too-early",
				Msg: fmt.Sprintf("%s was demoted by the grace mechanism at %v, only %v after its latest disconnect notification (%v); the grace period is %v", who, c.ToT, c.ToT-last.T, last.T, G)})
		}
	}
	// (2) demotion exactly when the grace period elapses
	for obj, ns := range notifs {
		for i, n := range ns {
			if n.Kind != ActDisconnect || !n.WasLeader {
				continue
			}
			inst := n.Inst
			G := p.graceOf(inst)
			who := fmt.Sprintf("%s#%d", tr.ID(inst), obj)
			due := n.T + G
			if due >= tr.End {
				continue
			}
			v.Classes = append(v.Classes, "disconnect-delivered-to-leader")
			v.Nontrivial = true
			// no other notification in (t_D, t_D+G]
			other := false
			for _, m := range ns[i+1:] {
				// (a "closed" notification is neither a reconnect nor a new disconnect: the connection is gone
				// for good, and the grace period that is running keeps running)
				if m.T <= due && m.Kind != ActClosed {
					other = true
					if m.Kind == ActReconnect {
						v.Classes = append(v.Classes, "reconnect-within-grace")
					} else if m.Kind == ActDisconnect {
						v.Classes = append(v.Classes, "flapping-disconnect-within-grace")
					}
				}
			}
			// an earlier reconnect whose verification is still pending belongs to the history too
			pendingVerify := false
			for _, m := range ns[:i] {
				if m.Kind == ActReconnect && m.WasLeader && n.T-m.T < 100*time.Millisecond+p.hangFor()+2*p.MaxRTT()+2*time.Second {
					pendingVerify = true
				}
			}
			if other {
				continue
			}
			c := claimAt(obj, n.Seq)
			if c == nil {
				continue
			}
			// stop calls in the window take over
			stopSeq, stopAPI := ci.firstStopAfter(obj, n.Seq)
			_ = stopSeq
			if stopAPI != nil && stopAPI.CallT <= due {
				v.Classes = append(v.Classes, "stop-during-outage")
				continue
			}
			if c.ToSeq >= 0 && c.ToT < due {
				// lost leadership earlier by another mechanism - unless it leads again when the grace period
				// elapses (the store stayed reachable and it re-acquired the key): "if no reconnect notification
				// arrived and it still leads" is about that moment, whichever term it is
				var again *Claim
				for _, c2 := range claims {
					if c2.Obj == obj && c2.FromT > c.ToT && c2.FromT < due && (c2.ToSeq < 0 || c2.ToT >= due) {
						again = c2
					}
				}
				if again == nil {
					continue
				}
				v.Classes = append(v.Classes, "term-changed-inside-the-grace-period")
				c = again
			}
			v.Classes = append(v.Classes, "grace-expiry-reached")
			sigExtra := ""
			if pendingVerify {
				sigExtra = " after-disconnect-during-pending-reconnect-verification"
			}
			if c.ToSeq < 0 || c.ToT > due {
				v.Viols = append(v.Viols, Viol{At: due, Sig: "C11 no-demotion-at-grace-expiry" + sigExtra,
					Msg: fmt.Sprintf("%s led when the disconnect notification arrived at %v; no reconnect/other notification and no stop until %v (grace period %v), it still led that term, yet it was not demoted at that moment (claim ends %v)", who, n.T, due, G, c.ToT)})
			} else if !demoteBy(obj, c.FromSeq, due) {
				v.Viols = append(v.Viols, Viol{At: due, Sig: "C11 grace-expiry-without-ondemote", Msg: fmt.Sprintf("%s was demoted at grace expiry %v but OnDemote was not invoked", who, due)})
			}
		}
	}
	// (3) reconnect verification
	for obj, ns := range notifs {
		for _, n := range ns {
			if n.Kind != ActReconnect || !n.WasLeader {
				continue
			}
			inst := n.Inst
			id := tr.ID(inst)
			who := fmt.Sprintf("%s#%d", id, obj)
			c := claimAt(obj, n.Seq)
			if c == nil {
				continue
			}
			// when did the verification end? (auxiliary: the library's own log lines)
			var end *LogRec
			vStart := n.T + 100*time.Millisecond
			for _, l := range tr.Logs {
				if l.Obj == obj && l.Seq > n.Seq && l.T >= vStart && (l.Msg == "reconnect_verification_success" || l.Msg == "reconnect_verification_failed") {
					end = l
					break
				}
			}
			if end == nil || end.T >= tr.End {
				continue
			}
			if c.ToSeq >= 0 && c.ToT <= vStart {
				continue // no longer leader when the verification begins
			}
			stopSeq, _ := ci.firstStopAfter(obj, n.Seq)
			if stopSeq < end.Seq {
				continue
			}
			// another reconnect/disconnect during the verification makes attribution ambiguous
			amb := false
			for _, m := range ns {
				if m != n && m.T > n.T && m.T <= end.T {
					amb = true
				}
				// an earlier reconnect whose verification may still be running: its log lines
				// cannot be told apart from this one's
				if m != n && m.Kind == ActReconnect && m.T <= n.T && end.T-m.T < 100*time.Millisecond+2*p.hangFor()+4*p.MaxRTT()+(end.T-vStart) {
					amb = true
				}
			}
			ld := liveDuring(tr.Ownership(p.Instances[inst].Group), vStart, end.T)
			all, none := len(ld) > 0, true
			for _, o := range ld {
				if Contains(o.Ver.Value, id, c.Token) {
					none = false
				}
				if !Definitely(o.Ver.Value, id, c.Token) {
					all = false // ambiguous encodings (duplicate keys, non-string duplicates) count as "mixed"
				}
			}
			// gaps (no live record for a while) count as "does not name it"
			gap := len(ld) == 0
			if len(ld) > 0 && (ld[0].FromT > vStart || ld[len(ld)-1].ToT < end.T) {
				gap = true
			}
			for k := 1; k < len(ld); k++ {
				if ld[k].FromT > ld[k-1].ToT {
					gap = true
				}
			}
			faulted := p.instFaulted(inst)
			switch {
			case all && !gap && !faulted && !amb:
				v.Classes = append(v.Classes, "reconnect-with-valid-record")
				// must keep leadership through the verification (another mechanism may still demote it: only the
				// reconnect mechanism is judged)
				if c.ToSeq >= 0 && c.ToT <= end.T && ci.CauseOf(c.Down) == CauseReconnect {
					v.Viols = append(v.Viols, Viol{At: c.ToT, Sig: "C11 reconnect-verification-demoted-valid-leader",
						Msg: fmt.Sprintf("%s: reconnect at %v; during the verification [%v, %v] the record always carried its id and token %.8s and the store answered, yet the verification demoted it at %v", who, n.T, vStart, end.T, c.Token, c.ToT)})
				}
			case none && !amb:
				v.Classes = append(v.Classes, "reconnect-with-changed-record")
				if c.ToSeq < 0 || c.ToT > end.T {
					v.Viols = append(v.Viols, Viol{At: end.T, Sig: "C11 reconnect-verification-kept-invalid-leader",
						Msg: fmt.Sprintf("%s: reconnect at %v; during the verification [%v, %v] no live record carried its id and token %.8s, yet it still reports leadership after the verification", who, n.T, vStart, end.T, c.Token)})
				} else if by := func() time.Duration {
					// a stop call that began before the verification ended owns the end of the term: it invokes
					// OnDemote itself, at the end of its own work
					by := end.T
					for _, st := range ci.stops[obj] {
						if st.CallT <= end.T && st.Call == "StopWithContext" && st.RetSeq >= 0 && st.RetT >= c.ToT && st.Err != "" && st.Err != "already stopped" {
							// ... and a StopWithContext that gives up (time-out, context) clears the claim without
							// OnDemote: the statement speaks of a successful StopWithContext only
							return 1 << 62
						}
						if st.CallT <= end.T && st.RetSeq >= 0 && st.RetT >= c.ToT && st.RetT+p.Instances[inst].DemoteDur+time.Millisecond > by {
							by = st.RetT + p.Instances[inst].DemoteDur + time.Millisecond
						}
					}
					return by
				}(); by < 1<<62 && !demoteBy(obj, c.FromSeq, by) {
					v.Viols = append(v.Viols, Viol{At: end.T, Sig: "C11 reconnect-verification-failure-without-ondemote",
						Msg: fmt.Sprintf("%s: leadership ended at %v after a failed reconnect verification but OnDemote was not invoked by %v", who, c.ToT, end.T)})
				}
			default:
				v.Classes = append(v.Classes, "reconnect-mixed-or-faulted")
			}
		}
	}
	sortViols(v.Viols)
	return v
}
