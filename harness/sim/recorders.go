package sim

import (
	"context"
	"fmt"
	"runtime"
	"time"

	"github.com/prometheus/client_golang/prometheus"
	"go.uber.org/zap"
	"go.uber.org/zap/zapcore"
)

// ---- Metrics ---------------------------------------------------------------------

type metrics struct{ o *objRT }

// SetIsLeader is invoked by the library inside its critical section at every
// change of the claim: this is the observation point of C02.
func (m *metrics) SetIsLeader(v float64, _ prometheus.Labels) {
	o, s := m.o, m.o.s
	if s.lean {
		return
	}
	defer s.yield()
	s.mu.Lock()
	defer s.mu.Unlock()
	o.gauge, o.gaugeSet = v, true
	val := o.el != nil && o.el.IsLeader()
	e := &Edge{Seq: s.nextSeq(), T: s.now(), Obj: o.idx, Inst: o.in.idx, Value: val, Changed: val != o.lastEdge, Gid: gid()}
	o.lastEdge = val
	for _, x := range s.objs {
		if x.in.spec.Group == o.in.spec.Group && x.el != nil && x.el.IsLeader() {
			e.Claims = append(e.Claims, x.idx)
		}
	}
	e.Live = s.store.Live(o.in.spec.Group)
	if o.el != nil {
		e.Token = o.el.Token()
	}
	s.tr.Edges = append(s.tr.Edges, e)
	s.tr.Mets = append(s.tr.Mets, &MetRec{Seq: e.Seq, T: e.T, Obj: o.idx, Inst: o.in.idx, Kind: "is_leader", Value: v})
}

func (m *metrics) rec(kind string, v float64, from, to, label string) {
	o, s := m.o, m.o.s
	if s.lean {
		return
	}
	if kind == "transition" {
		// a sink may apply a call a moment after it was made: when the library publishes under its mutex that
		// changes nothing, when it publishes after releasing it, another publisher can get in first
		s.yield()
	}
	s.mu.Lock()
	s.tr.Mets = append(s.tr.Mets, &MetRec{Seq: s.nextSeq(), T: s.now(), Obj: o.idx, Inst: o.in.idx, Kind: kind, Value: v, From: from, To: to, Label: label})
	s.mu.Unlock()
	s.yield()
}

func (m *metrics) SetConnectionStatus(v float64, _ prometheus.Labels) {
	m.rec("conn_status", v, "", "", "")
}
func (m *metrics) IncTransitions(l prometheus.Labels) {
	m.rec("transition", 0, l["from_state"], l["to_state"], "")
}
func (m *metrics) IncFailures(l prometheus.Labels)        { m.rec("failure", 0, "", "", l["error_type"]) }
func (m *metrics) IncAcquireAttempts(l prometheus.Labels) { m.rec("acquire", 0, "", "", l["status"]) }
func (m *metrics) IncTokenValidationFailures(prometheus.Labels) {
	m.rec("tokfail", 0, "", "", "")
}
func (m *metrics) ObserveHeartbeatDuration(d time.Duration, l prometheus.Labels) { m.o.s.yield() }
func (m *metrics) ObserveLeaderDuration(d time.Duration, l prometheus.Labels)    { m.o.s.yield() }

// ---- Logger -----------------------------------------------------------------------

type logger struct{ o *objRT }

var keepFields = map[string]bool{"reason": true, "retry": true, "initial_jitter": true, "backoff": true, "error_type": true,
	"from_state": true, "to_state": true, "failure_count": true, "consecutive_failures": true, "error": true, "permanent": true,
	"grace_period": true, "new_leader_id": true, "threshold": true, "token": true, "revision": true}

func (l *logger) log(level, msg string, fields []zap.Field) {
	o, s := l.o, l.o.s
	if s.lean {
		return
	}
	r := &LogRec{Obj: o.idx, Inst: o.in.idx, Level: level, Msg: msg, Gid: gid()}
	for _, f := range fields {
		if !keepFields[f.Key] {
			continue
		}
		if r.Fields == nil {
			r.Fields = map[string]string{}
		}
		switch f.Type {
		case zapcore.StringType:
			r.Fields[f.Key] = f.String
		case zapcore.ErrorType:
			if e, ok := f.Interface.(error); ok && e != nil {
				r.Fields[f.Key] = e.Error()
			}
		case zapcore.BoolType:
			r.Fields[f.Key] = fmt.Sprint(f.Integer == 1)
		default:
			r.Fields[f.Key] = fmt.Sprint(f.Integer)
		}
	}
	s.mu.Lock()
	r.Seq = s.nextSeq()
	r.T = s.now()
	s.tr.Logs = append(s.tr.Logs, r)
	var fired *LogRule
	if len(s.plan.LogRules) > 0 && !s.tearing.Load() {
		n := o.in.logCount[msg]
		o.in.logCount[msg] = n + 1
		for i := range s.plan.LogRules {
			if lr := &s.plan.LogRules[i]; lr.Inst == o.in.idx && lr.Msg == msg && lr.N == n {
				fired = lr
			}
		}
	}
	s.mu.Unlock()
	if fired != nil {
		s.fire(fired.Action, 0)
		for i := 0; i < 4; i++ {
			runtime.Gosched()
		}
	}
	s.yield()
}

func (l *logger) Debug(msg string, f ...zap.Field) { l.log("debug", msg, f) }
func (l *logger) Info(msg string, f ...zap.Field)  { l.log("info", msg, f) }
func (l *logger) Warn(msg string, f ...zap.Field)  { l.log("warn", msg, f) }
func (l *logger) Error(msg string, f ...zap.Field) { l.log("error", msg, f) }
func (l *logger) Fatal(msg string, f ...zap.Field) { l.log("fatal", msg, f) }

// ---- HealthChecker -------------------------------------------------------------------

type health struct{ o *objRT }

func (h *health) Check(ctx context.Context) bool {
	o, s := h.o, h.o.s
	if s.lean {
		// (only the heartbeat loops of one instance meet at this counter)
		n := int(o.in.healthNA.Add(1) - 1)
		script := 0
		if n < len(o.in.spec.Health) {
			script = o.in.spec.Health[n]
		}
		h.block(ctx, script)
		return script == 0 || script == 2 || script == 4
	}
	s.mu.Lock()
	n := o.in.healthN
	o.in.healthN++
	script := 0
	if n < len(o.in.spec.Health) {
		script = o.in.spec.Health[n]
	}
	rec := &HealthRec{Seq: s.nextSeq(), T: s.now(), Obj: o.idx, Inst: o.in.idx, N: n, Script: script, Deadline: -1,
		TokenAtCall: o.el.Token(), LeaderAtCall: o.el.IsLeader(), Gid: gid()}
	if dl, ok := ctx.Deadline(); ok {
		rec.Deadline = time.Until(dl)
	}
	rec.Result = script == 0 || script == 2 || script == 4
	s.tr.Healths = append(s.tr.Healths, rec)
	s.mu.Unlock()
	h.block(ctx, script)
	return rec.Result
}

// block: script 2/3 answer when the check's context is done; 4/5 ignore the context (it is advisory) and
// answer after three heartbeat intervals plus a second (long enough for a demotion by another mechanism
// and a re-acquisition through the 500ms periodic check to happen meanwhile).
func (h *health) block(ctx context.Context, script int) {
	s := h.o.s
	switch script {
	case 2, 3:
		select {
		case <-ctx.Done():
		case <-s.teardownCh:
		}
	case 4, 5:
		t := time.NewTimer(3*s.plan.H + time.Second)
		defer t.Stop()
		select {
		case <-t.C:
		case <-s.teardownCh:
		}
	}
}

// yield: see Plan.Yields.
func (s *Sim) yield() {
	if len(s.plan.Yields) == 0 || s.lean {
		return
	}
	s.mu.Lock()
	n := int(s.plan.Yields[s.yieldIdx%len(s.plan.Yields)])
	s.yieldIdx++
	s.mu.Unlock()
	for i := 0; i < n; i++ {
		runtime.Gosched()
	}
}
