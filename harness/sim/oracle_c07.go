package sim

import (
	"fmt"
)

// OracleC07: in fault-free operation a term is never disturbed until a stop
// call on that election begins.
func OracleC07(tr *Trace) Verdict {
	p := tr.Plan
	v := Verdict{Premise: p.FaultFree() && p.MaxRTT() < p.H/2 && !p.PreemptionPossible()}
	if !v.Premise {
		return v
	}
	ci := tr.causes()
	claims := tr.Claims()
	cbsByObj := map[int][]*CB{}
	for _, c := range tr.CBs {
		cbsByObj[c.Obj] = append(cbsByObj[c.Obj], c)
	}
	classes := map[string]bool{}
	owns := map[string][]*Own{}
	for _, c := range claims {
		if c.FromT >= tr.End {
			continue
		}
		id := tr.ID(c.Inst)
		who := fmt.Sprintf("%s#%d", id, c.Obj)
		key := p.Instances[c.Inst].Group
		stopSeq, stopAPI := ci.firstStopAfter(c.Obj, c.FromSeq)
		// a stop call that had already begun when the claim went up (and had not returned yet) is under way
		// during the term just as well: the acquisition completed while the call was waiting for the election
		// mutex, and the call then ended the term it found
		for _, a := range ci.stops[c.Obj] {
			if a.CallSeq < c.FromSeq && (a.RetSeq < 0 || a.RetSeq > c.FromSeq) {
				stopSeq, stopAPI = c.FromSeq, a
			}
		}
		endT := tr.End
		if stopAPI != nil && stopAPI.CallT < endT {
			endT = stopAPI.CallT
		}
		// --- non-triviality classes of this term
		for _, op := range tr.Ops {
			if op.Obj == c.Obj && op.Kind == OpCreate && op.IssueSeq > c.FromSeq && op.IssueSeq < stopSeq && op.IssueT < endT {
				classes["own-acquisition-attempt-during-term"] = true
			}
			if op.Obj == c.Obj && op.Kind == OpGet && op.IssueSeq < c.FromSeq && op.ReturnSeq > c.FromSeq {
				classes["periodic-get-straddles-promotion"] = true
			}
		}
		for _, w := range tr.WatchEvs {
			if w.Obj == c.Obj && !w.Dropped && !w.Ev.Marker && w.Seq > c.FromSeq && w.Seq < stopSeq && c.Up.Live != nil && w.Ev.Rev < c.Up.Live.Rev {
				classes["stale-watch-event-delivered-to-leader"] = true
			}
		}
		for _, a := range tr.APIs {
			if a.Obj != c.Obj && a.CallSeq > c.FromSeq && a.CallSeq < stopSeq && a.CallT < endT {
				classes["other-instance-started-or-stopped-during-term"] = true
			}
		}
		// --- the term must not end before a stop call begins
		if c.ToSeq >= 0 && c.ToSeq < stopSeq && c.ToT < tr.End {
			cause := ci.CauseOf(c.Down)
			v.Viols = append(v.Viols, Viol{At: c.ToT, Sig: "C07 leader-demoted-in-fault-free-operation cause=" + cause,
				Msg: fmt.Sprintf("%s became leader at %v (token %.8s) and stopped reporting leadership at %v (cause: %s) although no stop call had begun and the run is fault-free", who, c.FromT, c.Token, c.ToT, cause)})
			continue
		}
		// --- no OnDemote before the stop call
		for _, cb := range cbsByObj[c.Obj] {
			if cb.Kind == "demote-enter" && cb.Seq > c.FromSeq && cb.Seq < stopSeq && cb.T < tr.End && cb.T > c.FromT {
				v.Viols = append(v.Viols, Viol{At: cb.T, Sig: "C07 ondemote-during-undisturbed-term",
					Msg: fmt.Sprintf("%s: OnDemote invoked at %v during the term that began at %v, before any stop call", who, cb.T, c.FromT)})
				break
			}
		}
		// --- token unchanged at every snapshot of the term
		for _, s := range tr.Snaps {
			if s.Seq <= c.FromSeq || s.Seq >= stopSeq || s.T >= endT || (c.ToSeq >= 0 && s.Seq >= c.ToSeq) {
				continue
			}
			for _, si := range s.Insts {
				if si.Obj == c.Obj && si.Token != c.Token {
					v.Viols = append(v.Viols, Viol{At: s.T, Sig: "C07 token-changed-during-term",
						Msg: fmt.Sprintf("%s: Token() is %.8s at %v but the term that began at %v has token %.8s", who, si.Token, s.T, c.FromT, c.Token)})
				}
			}
		}
		// --- every heartbeat of the term succeeds
		for _, op := range tr.Ops {
			if op.Obj == c.Obj && op.Kind == OpUpdate && op.IssueSeq > c.FromSeq && op.IssueSeq < stopSeq && op.ReturnSeq >= 0 && op.ReturnSeq < stopSeq && op.ReturnT < endT && op.Err != "" {
				v.Viols = append(v.Viols, Viol{At: op.ReturnT, Sig: "C07 heartbeat-failed-in-fault-free-operation",
					Msg: fmt.Sprintf("%s: heartbeat Update issued at %v with expected revision %d failed: %s", who, op.IssueT, op.Exp, op.Err)})
				break
			}
		}
		// --- the record never lapses or changes owner until the stop call
		if c.Up.Live == nil {
			continue // C02's business
		}
		if owns[key] == nil {
			owns[key] = tr.Ownership(key)
		}
		os := owns[key]
		i := 0
		for i < len(os) && os[i].Ver != c.Up.Live {
			i++
		}
		for ; i < len(os); i++ {
			o := os[i]
			if o.ToT >= endT || (o.ToSeq < 0 && !o.Expired) {
				break
			}
			if o.Expired {
				v.Viols = append(v.Viols, Viol{At: o.ToT, Sig: "C07 record-lapsed-during-term",
					Msg: fmt.Sprintf("%s leads since %v, no stop call before %v, but its record (rev %d) expired at %v", who, c.FromT, endT, o.Ver.Rev, o.ToT)})
				break
			}
			if i+1 < len(os) {
				nx := os[i+1]
				if nx.Ver.Tomb || nx.Ver.Actor != id || !Contains(nx.Ver.Value, id, c.Token) {
					v.Viols = append(v.Viols, Viol{At: nx.FromT, Sig: "C07 record-changed-owner-during-term",
						Msg: fmt.Sprintf("%s leads since %v with token %.8s, no stop call before %v, but at %v the record became %s", who, c.FromT, c.Token, endT, nx.FromT, fmtVer(nx.Ver))})
					break
				}
			}
		}
	}
	for c := range classes {
		v.Classes = append(v.Classes, c)
	}
	v.Nontrivial = len(classes) > 0
	v.Classes = append(v.Classes, fmt.Sprintf("terms=%d", min(len(claims), 4)))
	tr.markPlainDeleteConsequences(&v, "C07")
	sortViols(v.Viols)
	return v
}
