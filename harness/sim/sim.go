package sim

import (
	"context"
	"fmt"
	"os"
	"reflect"
	"runtime"
	"sort"
	"strconv"
	"strings"
	"sync"
	"sync/atomic"
	"testing"
	"testing/synctest"
	"time"
	"unsafe"

	"github.com/ali-assar/NATS-Leader-Election/leader"
	"github.com/nats-io/nats.go"

	"verif/harness/refkv"
)

const libPrefix = "github.com/ali-assar/NATS-Leader-Election/leader."

type Sim struct {
	leanApply atomic.Int64 // application counter of lean plans (see link.exec)
	mu    sync.Mutex
	plan  *Plan
	store *refkv.Store
	t0    time.Time
	tr    *Trace
	seq   int
	insts []*instRT
	objs  []*objRT

	tearing    atomic.Bool
	lean       bool
	teardownCh chan struct{}
	diceIdx    int
	yieldIdx   int
	nextObj    int
	opID       int
	apiID      int
	watchID    int
	applyMu    sync.Mutex
	watchers   []*linkWatcher
	wg         sync.WaitGroup // harness goroutines (actions, dispatchers)
}

type instRT struct {
	s    *Sim
	idx  int
	spec *Inst
	objs []*objRT
	// counters shared by all objects of the instance (rules are per instance)
	opCount    map[string]int
	latIdx     int
	watchDelay int
	watchOrd   int
	watchCalls int
	healthN    int
	logCount   map[string]int
	pointCount map[string]int
	wonCreates int
	healthNA   atomic.Int64 // lean mode
	curObj     atomic.Pointer[objRT]
	startSem   chan struct{}
}

type objRT struct {
	s   *Sim
	in  *instRT
	idx int // global object index
	gen int // generation within the instance
	el  leader.Election

	conn     *nats.Conn
	dispatch chan func()

	started     bool
	startGen    int
	startCalls  int                // Start calls begun so far
	stopCalls   int                // stop calls begun so far
	stopFailed  bool               // a stop call returned an error: the object is not restarted (known finding C09 WaitGroup reuse)
	stopIdle    chan struct{}      // closed when the last in-progress stop call returns
	startCancel context.CancelFunc // cancels the context passed to the last Start
	cbGen       int                // registrations of the callbacks so far
	pendingCancels map[int]context.CancelFunc // contexts of Start calls that have not returned yet
	pendingSeq     int
	inStop      int
	stopped     bool
	delDepth    int
	p, d        int
	dDone       int  // OnDemote callbacks that have returned
	byCancel    bool // the latest completed stop was a cancellation of the Start context
	gauge       float64
	gaugeSet    bool
	lastEdge    bool
	opsInFlight int
}

func (s *Sim) now() time.Duration { return time.Since(s.t0) }

// nextSeq must be called with s.mu held.
func (s *Sim) nextSeq() int { s.seq++; progress.Add(1); return s.seq }

func gid() uint64 {
	var buf [64]byte
	n := runtime.Stack(buf[:], false)
	// "goroutine 123 ["
	f := strings.Fields(string(buf[:n]))
	if len(f) < 2 {
		return 0
	}
	id, _ := strconv.ParseUint(f[1], 10, 64)
	return id
}

// sleepI sleeps d of virtual time unless teardown starts first.
func (s *Sim) sleepI(d time.Duration) {
	if d <= 0 {
		return
	}
	t := time.NewTimer(d)
	defer t.Stop()
	select {
	case <-t.C:
	case <-s.teardownCh:
	}
}

// ---- provider / recorders -------------------------------------------------------

type provider struct{ o *objRT }

func (p *provider) JetStream() (leader.JetStreamContext, error) { return p, nil }
func (p *provider) KeyValue(bucket string) (leader.KeyValue, error) {
	l := &link{s: p.o.s, o: p.o}
	if p.o.s.plan.PlainDelete {
		return l, nil
	}
	return linkRD{l}, nil
}

type connProvider struct{ provider }

func (p *connProvider) NATSConnection() *nats.Conn { return p.o.conn }

func (s *Sim) newObject(in *instRT) *objRT {
	s.mu.Lock()
	o := &objRT{s: s, in: in, idx: s.nextObj, gen: len(in.objs)}
	s.nextObj++
	s.mu.Unlock()
	sp := in.spec
	cfg := leader.ElectionConfig{
		Bucket: "bucket", Group: sp.Group, InstanceID: sp.ID, TTL: s.plan.TTL, HeartbeatInterval: s.plan.H,
		ValidationInterval: sp.VI, DisconnectGracePeriod: sp.Grace, MaxConsecutiveFailures: sp.MCF,
		Priority: sp.Priority, AllowPriorityTakeover: sp.Takeover,
		Logger: &logger{o: o},
	}
	if !sp.NoMetrics {
		cfg.Metrics = &metrics{o: o}
	}
	if sp.HasHealth {
		cfg.HealthChecker = &health{o: o}
	}
	var prov leader.JetStreamProvider = &provider{o: o}
	if sp.Monitored {
		o.conn = &nats.Conn{}
		prov = &connProvider{provider{o: o}}
	}
	el, err := leader.NewElection(prov, cfg)
	if err != nil {
		s.mu.Lock()
		s.tr.HarnessErr = fmt.Sprintf("NewElection(%s): %v", sp.ID, err)
		s.mu.Unlock()
		return nil
	}
	o.el = el
	s.registerCallbacks(o)
	s.mu.Lock()
	s.objs = append(s.objs, o)
	in.objs = append(in.objs, o)
	in.curObj.Store(o)
	s.mu.Unlock()
	return o
}

func (s *Sim) registerCallbacks(o *objRT) {
	sp := o.in.spec
	if s.lean {
		o.el.OnPromote(func(ctx context.Context, token string) {
			switch sp.Promote {
			case 1:
				select {
				case <-ctx.Done():
				case <-s.teardownCh:
				}
			case 2:
				for i := 0; i < 40 && ctx.Err() == nil; i++ {
					if s.sleepOrCtx(ctx, s.plan.H/3) {
						break
					}
				}
			}
			if sp.Promote != 0 && sp.PromoteLinger > 0 && ctx.Err() != nil {
				s.sleepI(sp.PromoteLinger)
			}
		})
		o.el.OnDemote(func() { s.sleepI(sp.DemoteDur) })
		return
	}
	// every registration is a new pair of functions: a callback of an earlier registration that is still
	// invoked after it was replaced is not "the" demotion callback
	s.mu.Lock()
	o.cbGen++
	gen := o.cbGen
	s.mu.Unlock()
	o.el.OnPromote(func(ctx context.Context, token string) {
		s.mu.Lock()
		o.p++
		term := &Term{ID: len(s.tr.Terms), Obj: o.idx, Inst: o.in.idx, Token: token, Ctx: ctx, EnterT: s.now(), CtxDoneAtEntry: ctx.Err() != nil}
		term.EnterSeq = s.nextSeq()
		s.tr.Terms = append(s.tr.Terms, term)
		s.tr.CBs = append(s.tr.CBs, &CB{Seq: term.EnterSeq, T: term.EnterT, Obj: o.idx, Inst: o.in.idx, Kind: "promote-enter", Token: token, Term: term.ID, Gid: gid()})
		s.mu.Unlock()
		switch sp.Promote {
		case 1:
			select {
			case <-ctx.Done():
			case <-s.teardownCh:
				select {
				case <-ctx.Done():
				default:
					term.ExitedByTeardown = true
				}
			}
		case 2:
			for i := 0; i < 40; i++ {
				if ctx.Err() != nil {
					break
				}
				if s.sleepOrCtx(ctx, s.plan.H/3) {
					i = 1 << 30
				}
			}
		}
		if sp.Promote != 0 && sp.PromoteLinger > 0 && ctx.Err() != nil {
			s.sleepI(sp.PromoteLinger) // winding down
		}
		s.mu.Lock()
		term.Exited = true
		term.ExitT = s.now()
		term.ExitSeq = s.nextSeq()
		term.CtxDoneAtExit = ctx.Err() != nil
		s.tr.CBs = append(s.tr.CBs, &CB{Seq: term.ExitSeq, T: term.ExitT, Obj: o.idx, Inst: o.in.idx, Kind: "promote-exit", Token: token, Term: term.ID})
		s.mu.Unlock()
	})
	o.el.OnDemote(func() {
		s.mu.Lock()
		if gen != o.cbGen {
			// replaced before this invocation began: recorded, not counted
			s.tr.CBs = append(s.tr.CBs, &CB{Seq: s.nextSeq(), T: s.now(), Obj: o.idx, Inst: o.in.idx, Kind: "stale-demote-enter", Token: o.el.Token(), Gid: gid()})
			s.mu.Unlock()
			return
		}
		o.d++
		// the k-th OnDemote of an election ends its k-th term (when a Start overlapped a stop call, the next
		// term may have begun before the OnDemote of the stopped one is delivered)
		done, k := -1, 0
		for _, t := range s.tr.Terms {
			if t.Obj == o.idx {
				if k++; k > o.d {
					break
				}
				done = 0
				if t.Ctx.Err() != nil {
					done = 1
				}
			}
		}
		s.tr.CBs = append(s.tr.CBs, &CB{Seq: s.nextSeq(), T: s.now(), Obj: o.idx, Inst: o.in.idx, Kind: "demote-enter", Token: o.el.Token(), Gid: gid(), TermCtxDone: done})
		s.mu.Unlock()
		s.sleepI(sp.DemoteDur)
		s.mu.Lock()
		o.dDone++
		s.tr.CBs = append(s.tr.CBs, &CB{Seq: s.nextSeq(), T: s.now(), Obj: o.idx, Inst: o.in.idx, Kind: "demote-exit"})
		s.mu.Unlock()
	})
}

// ---- actions ----------------------------------------------------------------------

func (s *Sim) current(inst int) *objRT {
	in := s.insts[inst]
	s.mu.Lock()
	defer s.mu.Unlock()
	if len(in.objs) == 0 {
		return nil
	}
	return in.objs[len(in.objs)-1]
}

func (s *Sim) apiBegin(o *objRT, call string, a *Action) *APIRec {
	s.mu.Lock()
	defer s.mu.Unlock()
	r := &APIRec{ID: s.apiID, Obj: o.idx, Inst: o.in.idx, Call: call, Action: a, CallT: s.now(), CallSeq: s.nextSeq(), RetSeq: -1,
		WasLeaderAtCall: o.el.IsLeader(), TokenAtCall: o.el.Token()}
	s.apiID++
	s.tr.APIs = append(s.tr.APIs, r)
	return r
}

func (s *Sim) apiEnd(o *objRT, r *APIRec, b bool, err error) {
	s.mu.Lock()
	defer s.mu.Unlock()
	r.RetT = s.now()
	r.RetSeq = s.nextSeq()
	r.Bool = b
	if err != nil {
		r.Err = err.Error()
	}
	r.IsLeaderAtReturn = o.el.IsLeader()
}

func (s *Sim) mkCtx(a *Action) (context.Context, context.CancelFunc) {
	switch a.CtxMode {
	case "cancelled":
		ctx, c := context.WithCancel(context.Background())
		c()
		return ctx, c
	case "deadline":
		return context.WithTimeout(context.Background(), a.CtxTimeout)
	case "cancel_after":
		ctx, c := context.WithCancel(context.Background())
		tm := time.AfterFunc(a.CtxTimeout, c)
		return ctx, func() { tm.Stop(); c() }
	}
	return context.Background(), func() {}
}

// doAction performs one plan action; blocking API calls make it block, so it is
// always run in its own goroutine.
func (s *Sim) doAction(a *Action) {
	defer s.wg.Done()
	if s.tearing.Load() {
		return
	}
	switch a.Kind {
	case ActStart:
		// Start actions of one instance are serialised: at most one election object per instance id is
		// active at any time (instance ids are unique per group - a precondition of every property)
		in := s.insts[a.Inst]
		select {
		case in.startSem <- struct{}{}:
		case <-s.teardownCh:
			return
		}
		defer func() { <-in.startSem }()
		o := s.current(a.Inst)
		if o != nil {
			// wait for in-progress stop calls first (see below), then decide
			waited := false
			for !a.Overlap {
				s.mu.Lock()
				ch := o.stopIdle
				busy := o.inStop > 0
				s.mu.Unlock()
				if !busy {
					break
				}
				waited = true
				select {
				case <-ch:
				case <-s.teardownCh:
					return
				}
			}
			if waited {
				// StopWithContext{WaitForDemote:false} runs OnDemote in a goroutine of
				// its own; let it run before the next term can begin (the restart
				// happens strictly after the stop returned, not in the same instant).
				s.sleepI(1)
			}
		}
		if s.tearing.Load() {
			return // the run is over (the call was waiting for a stop call that only returned at teardown)
		}
		fresh := o == nil
		if o != nil {
			s.mu.Lock()
			if o.stopFailed {
				s.tr.ExcludedRestartAfterFailedStop++
				fresh = true
			}
			if a.NewObject && o.stopped {
				fresh = true
			}
			s.mu.Unlock()
		}
		if fresh && o != nil {
			// the previous object must be completely stopped before a successor with the same id exists
			s.mu.Lock()
			clean := o.stopped
			s.mu.Unlock()
			if !clean {
				r := s.apiBegin(o, "Stop", nil) // harness-initiated: retire the object before its successor starts
				err := o.el.Stop()
				s.mu.Lock()
				o.stopped = true
				o.started = false
				s.mu.Unlock()
				s.apiEnd(o, r, err == nil, err)
			}
		}
		if fresh {
			o = s.newObject(s.insts[a.Inst])
			if o == nil {
				return
			}
		}
		// Lifecycle calls of real callers are sequential per election: Start is
		// not issued while a stop call on the same object has not returned yet.
		for !a.Overlap {
			s.mu.Lock()
			ch := o.stopIdle
			busy := o.inStop > 0
			s.mu.Unlock()
			if !busy {
				break
			}
			select {
			case <-ch:
			case <-s.teardownCh:
				return
			}
		}
		if s.tearing.Load() {
			return
		}
		r := s.apiBegin(o, "Start", a)
		s.mu.Lock()
		o.startCalls++
		stopsAtCall := o.stopCalls
		s.mu.Unlock()
		base := context.Background()
		if o.in.spec.CorrID {
			base = context.WithValue(base, "correlation_id", "run-of-"+o.in.spec.ID) //nolint: the library looks this string key up
		}
		sctx, scancel := context.WithCancel(base)
		// the run's context ends by deadline if the plan's next cancellation of this instance says so
		for i := range s.plan.Timeline {
			if b := &s.plan.Timeline[i]; b.Kind == ActCancelCtx && b.Inst == a.Inst && b.ByDeadline && b.At > s.now() {
				scancel()
				sctx, scancel = context.WithDeadline(base, s.t0.Add(b.At+1)) // 1ns after the action has recorded the call
				break
			}
		}
		// a cancellation that arrives while this Start is under way is the caller cancelling this context too
		// (the stop bookkeeping below counts such a stop as taking effect after this Start)
		s.mu.Lock()
		if o.pendingCancels == nil {
			o.pendingCancels = map[int]context.CancelFunc{}
		}
		o.pendingSeq++
		pid := o.pendingSeq
		o.pendingCancels[pid] = scancel
		s.mu.Unlock()
		err := o.el.Start(sctx)
		s.mu.Lock()
		delete(o.pendingCancels, pid)
		if err == nil {
			// a stop call that began while this Start was under way (fired from one of Start's own log lines)
			// takes effect after it: the object is then being stopped, not started
			if o.stopCalls == stopsAtCall {
				o.started, o.stopped = true, false
			} else {
				// a stop call began while this Start was under way: which of the two took effect last is the
				// library's business (a Stop that comes while Start is still shutting the cancelled previous run
				// down stops that run; the new one is installed afterwards) - neither "started" nor "stopped"
				o.started, o.stopped = false, false
			}
			o.startGen++
			o.startCancel = scancel
		} else {
			scancel()
		}
		s.mu.Unlock()
		s.mu.Lock()
		needDispatch := err == nil && o.conn != nil && o.dispatch == nil
		if needDispatch {
			o.dispatch = make(chan func(), 64)
		}
		s.mu.Unlock()
		if needDispatch {
			dispatch := o.dispatch
			s.wg.Add(1)
			go func() {
				defer s.wg.Done()
				for {
					select {
					case f := <-dispatch:
						f()
					case <-s.teardownCh:
						return
					}
				}
			}()
		}
		s.apiEnd(o, r, err == nil, err)
	case ActStop, ActStopCtx, ActCancelCtx:
		o := s.current(a.Inst)
		if o == nil {
			return
		}
		var cancelStart context.CancelFunc
		if a.Kind == ActCancelCtx {
			// "If the context is cancelled, the election will stop gracefully" (Start's documentation):
			// recorded as a Stop call that lasts from the cancellation until the election reports no leadership
			// and its OnDemote (if it led) has returned; the state it is left in is FOLLOWER (the pinned suite's
			// TestWatcherStopsOnContextCancel demands that of a cancelled follower), not STOPPED
			s.mu.Lock()
			last := o.startCancel
			var pend []context.CancelFunc
			for _, c := range o.pendingCancels {
				if !a.OnlyRunning {
					pend = append(pend, c)
				}
			}
			s.mu.Unlock()
			if last == nil && len(pend) == 0 {
				return
			}
			cancelStart = func() {
				if last != nil {
					last()
				}
				for _, c := range pend {
					c()
				}
			}
			if a.NoWait {
				r := s.apiBegin(o, "CancelStartContext", a)
				s.mu.Lock()
				o.started = false // the run is over, whatever becomes of a later Start
				s.mu.Unlock()
				cancelStart()
				s.apiEnd(o, r, true, nil)
				if a.ThenStop {
					// the ordinary shutdown idiom: cancel(); election.Stop()
					b := Action{At: a.At, Kind: ActStop, Inst: a.Inst}
					s.wg.Add(1)
					s.doAction(&b)
				}
				if a.ThenStart {
					// cancel(); Start(newCtx) on one goroutine, with nothing in between
					b := Action{At: a.At, Kind: ActStart, Inst: a.Inst}
					s.wg.Add(1)
					s.doAction(&b)
				}
				return
			}
		}
		call := "Stop"
		if a.Kind == ActStopCtx {
			call = "StopWithContext"
		}
		r := s.apiBegin(o, call, a)
		s.mu.Lock()
		if o.inStop == 0 {
			o.stopIdle = make(chan struct{})
		}
		o.inStop++
		o.started = false
		o.stopCalls++
		sg := o.startGen
		startsAtCall := o.startCalls
		if a.Kind == ActStopCtx && a.DeleteKey {
			o.delDepth++
		}
		s.mu.Unlock()
		var err error
		if a.Kind == ActCancelCtx {
			if a.ByDeadline {
				// the context was given this instant + 1ns as its deadline when the run was started (it expires
				// by itself; cancelling it a moment later changes nothing)
				s.sleepI(2)
			}
			cancelStart()
			limit := s.now() + 5*time.Second + o.in.spec.DemoteDur + 2*time.Second
			for {
				st := o.el.Status()
				s.mu.Lock()
				balanced := o.p == o.dDone
				s.mu.Unlock()
				if !st.IsLeader && balanced {
					break
				}
				if s.now() > limit || s.tearing.Load() {
					err = fmt.Errorf("election not stopped %v after its Start context was cancelled: state=%s IsLeader=%v", s.now()-r.CallT, st.State, st.IsLeader)
					break
				}
				s.sleepI(time.Millisecond)
			}
		} else if a.Kind == ActStop {
			err = o.el.Stop()
		} else {
			ctx, cancel := s.mkCtx(a)
			err = o.el.StopWithContext(ctx, leader.StopOptions{DeleteKey: a.DeleteKey, WaitForDemote: a.WaitForDemote, Timeout: a.Timeout})
			cancel()
		}
		s.mu.Lock()
		o.inStop--
		if o.inStop == 0 {
			close(o.stopIdle)
		}
		if a.Kind == ActStopCtx && a.DeleteKey {
			o.delDepth--
		}
		// (a Start that returned meanwhile but whose call had begun before this stop call began is the earlier
		// of the two: this stop took effect after it)
		if err == nil && o.startGen != sg && o.startCalls == startsAtCall {
			// a Start whose call had begun before this stop call began has returned meanwhile: the two overlapped,
			// and which took effect last is the library's business (see the Start branch)
			o.started, o.stopped = false, false
		} else if err == nil && (o.startGen == sg || o.startCalls == startsAtCall) {
			o.stopped = true
			o.byCancel = a.Kind == ActCancelCtx
		}
		// A stop call that returned an error, or a Stop that gave up waiting after its 5s, leaves goroutines
		// of the run behind. Restarting that very object used to reuse its WaitGroup under the abandoned
		// Wait (runtime panic / race report: the former known finding C09/C20, repaired by giving every run a
		// WaitGroup of its own); such restarts are ordinary plan steps now. CleanRestartsOnly brings the old
		// exclusion back (the object is then restarted as a new election).
		if s.plan.CleanRestartsOnly && ((err != nil && err != leader.ErrAlreadyStopped) || (a.Kind == ActStop && s.now()-r.CallT >= 5*time.Second)) {
			o.stopFailed = true
		}
		s.mu.Unlock()
		s.apiEnd(o, r, err == nil, err)
	case ActDisconnect, ActReconnect, ActClosed:
		o := s.current(a.Inst)
		if o == nil || o.conn == nil {
			return
		}
		// a.Then: further notifications queued behind the first one without a pause, as the client's
		// callback goroutine delivers a burst (flapping connection): handler k+1 starts as soon as
		// handler k has returned
		for _, kind := range append([]string{a.Kind}, a.Then...) {
			s.notify(o, kind)
		}
	case ActExtPut, ActExtDelete:
		s.extWrite(a)
	case ActProbe:
		o := s.probeTarget(a.Inst)
		if o == nil {
			return
		}
		r := s.apiBegin(o, "ValidateToken", a)
		ctx, cancel := s.mkCtx(a)
		ok, err := o.el.ValidateToken(ctx)
		cancel()
		s.apiEnd(o, r, ok, err)
	case ActProbeDem:
		o := s.probeTarget(a.Inst)
		if o == nil {
			return
		}
		r := s.apiBegin(o, "ValidateTokenOrDemote", a)
		ctx, cancel := s.mkCtx(a)
		ok := o.el.ValidateTokenOrDemote(ctx)
		cancel()
		s.apiEnd(o, r, ok, nil)
	case ActCloseWatch:
		s.mu.Lock()
		for _, lw := range s.watchers {
			if lw.l.o.in.idx == a.Inst && lw.kill() {
				s.tr.WatchCloses = append(s.tr.WatchCloses, &WatchClose{Seq: s.nextSeq(), T: s.now(), Obj: lw.l.o.idx, Inst: a.Inst, WatchID: lw.id})
			}
		}
		s.mu.Unlock()
	case ActSetHandler:
		o := s.current(a.Inst)
		if o == nil {
			return
		}
		s.registerCallbacks(o)
	}
}

// notify queues one connection notification for the object's callback dispatcher (one goroutine per
// connection, callbacks in order, like nats.go's asynchronous callback handler).
func (s *Sim) notify(o *objRT, kind string) {
	s.mu.Lock()
	dispatch := o.dispatch
	s.mu.Unlock()
	if dispatch == nil {
		return
	}
	s.mu.Lock()
	n := &NotifRec{Seq: s.nextSeq(), T: s.now(), Obj: o.idx, Inst: o.in.idx, Kind: kind, DoneSeq: -1, WasLeader: o.el.IsLeader(), TokenAt: o.el.Token()}
	s.tr.Notifs = append(s.tr.Notifs, n)
	s.mu.Unlock()
	select {
	case dispatch <- func() {
		var h nats.ConnHandler
		switch kind {
		case ActDisconnect:
			h = disconnectedCB(o.conn)
		case ActReconnect:
			h = o.conn.ReconnectHandler()
		case ActClosed:
			h = o.conn.ClosedHandler()
		}
		if h != nil {
			s.mu.Lock()
			// the leadership the handler sees is the one at dispatch, not at enqueue
			n.WasLeader = o.el.IsLeader()
			n.TokenAt = o.el.Token()
			n.T = s.now()
			n.Seq = s.nextSeq()
			s.mu.Unlock()
			h(o.conn)
			s.mu.Lock()
			n.Delivered = true
			n.DoneSeq = s.nextSeq()
			n.DoneT = s.now()
			s.mu.Unlock()
		}
	}:
	default:
	}
}

func (s *Sim) extWrite(a *Action) {
	s.applyMu.Lock()
	defer s.applyMu.Unlock()
	s.mu.Lock()
	rec := &OpRec{ID: s.opID, Obj: -1, Inst: -1, Actor: "ext", Key: a.Key, Payload: a.Value, IssueT: s.now(), IssueSeq: s.nextSeq()}
	s.opID++
	s.mu.Unlock()
	rec.PrevLive = s.store.Live(a.Key)
	if a.Kind == ActExtPut {
		rec.Kind = "put"
		val := s.substitute(a.Value)
		rec.Payload = val
		rec.Ver = s.store.Put(a.Key, val, "ext")
	} else {
		rec.Kind = OpDelete
		rec.Ver = s.store.Delete(a.Key, "ext")
	}
	s.mu.Lock()
	rec.Applied = true
	rec.ApplyT, rec.ReturnT = s.now(), s.now()
	rec.ApplySeq = s.nextSeq()
	rec.ReturnSeq = rec.ApplySeq
	s.tr.Ops = append(s.tr.Ops, rec)
	s.mu.Unlock()
}

// ---- snapshots ----------------------------------------------------------------------

func (s *Sim) snapshot(why string) {
	s.mu.Lock()
	objs := append([]*objRT(nil), s.objs...)
	s.mu.Unlock()
	sn := &Snap{Why: why, Live: map[string]*refkv.Version{}}
	for _, o := range objs {
		st := o.el.Status()
		s.mu.Lock()
		si := SnapInst{Inst: o.in.idx, Obj: o.idx, Gen: o.gen, Started: o.started, InStop: o.inStop > 0, Stopped: o.stopped, ByCancel: o.byCancel,
			State: st.State, StIsLeader: st.IsLeader, StLeaderID: st.LeaderID, StToken: st.Token, Revision: st.Revision,
			IsLeader: o.el.IsLeader(), LeaderID: o.el.LeaderID(), Token: o.el.Token(),
			Gauge: o.gauge, GaugeSet: o.gaugeSet, P: o.p, D: o.d, OpsInFlight: o.opsInFlight}
		s.mu.Unlock()
		sn.Insts = append(sn.Insts, si)
	}
	for _, g := range s.plan.Groups() {
		if v := s.store.Live(g); v != nil {
			sn.Live[g] = v
		}
	}
	s.mu.Lock()
	for _, t := range s.tr.Terms {
		if !t.Exited {
			sn.Terms = append(sn.Terms, SnapTerm{Obj: t.Obj, Inst: t.Inst, Term: t.ID, Token: t.Token, CtxDone: t.Ctx.Err() != nil})
		}
	}
	sn.T = s.now()
	sn.Seq = s.nextSeq()
	s.tr.Snaps = append(s.tr.Snaps, sn)
	s.mu.Unlock()
}

// ---- the run ---------------------------------------------------------------------------

type step struct {
	at  time.Duration
	act *Action
}

func (s *Sim) fire(a Action, delay time.Duration) {
	if s.tearing.Load() {
		return
	}
	s.wg.Add(1)
	go func() {
		if delay > 0 {
			s.sleepI(delay)
		}
		a.At = s.now()
		s.doAction(&a)
	}()
}

// Run executes the plan in a fresh bubble and returns the trace.
func Run(t *testing.T, p *Plan) *Trace {
	tr := &Trace{Plan: p}
	caseBegin()
	defer caseEnd()
	runBubble(t, func() {
		s := &Sim{plan: p, tr: tr, t0: time.Now(), teardownCh: make(chan struct{}), lean: p.Lean}
		tr.StartAt = s.t0
		s.store = refkv.New(p.StoreTTL(), time.Now)
		for i := range p.Instances {
			s.insts = append(s.insts, &instRT{s: s, idx: i, spec: &p.Instances[i], opCount: map[string]int{}, logCount: map[string]int{}, pointCount: map[string]int{}, startSem: make(chan struct{}, 1)})
		}
		leader.VerifRandHook = s.dice
		defer func() { leader.VerifRandHook = nil }()
		if len(p.Stalls) > 0 {
			leader.VerifPointHook = s.point
			defer func() { leader.VerifPointHook = nil }()
		}
		vclock.Store(0)

		var steps []step
		for i := range p.Timeline {
			steps = append(steps, step{at: p.Timeline[i].At, act: &p.Timeline[i]})
		}
		if p.SnapEvery > 0 {
			for at := p.SnapEvery; at < p.Horizon; at += p.SnapEvery {
				steps = append(steps, step{at: at})
			}
		}
		for i := range p.Hammers {
			s.startHammer(&p.Hammers[i])
		}
		sort.SliceStable(steps, func(i, j int) bool { return steps[i].at < steps[j].at })
		for _, st := range steps {
			if st.at >= p.Horizon {
				break
			}
			if d := st.at - s.now(); d > 0 {
				time.Sleep(d)
			}
			vclock.Store(int64(s.now()))
			if p.NoQuiesce {
				if st.act != nil {
					s.wg.Add(1)
					go s.doAction(st.act)
				}
				continue
			}
			synctest.Wait()
			if st.act == nil {
				s.snapshot("grid")
				continue
			}
			s.snapshot("pre-" + st.act.Kind)
			s.wg.Add(1)
			go s.doAction(st.act)
			synctest.Wait()
			s.snapshot("post-" + st.act.Kind)
		}
		if d := p.Horizon - s.now(); d > 0 {
			time.Sleep(d)
		}
		vclock.Store(int64(s.now()))
		if !p.NoQuiesce {
			synctest.Wait()
			s.snapshot("horizon")
		}
		s.teardown()
	})
	return tr
}

func (s *Sim) teardown() {
	s.mu.Lock()
	s.tr.End = s.now()
	objs := append([]*objRT(nil), s.objs...)
	s.mu.Unlock()
	// stop everything that is not stopped yet (outside the judged part of the run)
	s.tearing.Store(true)
	// a Start call that is under way (it can take a while: it first shuts a cancelled previous run down,
	// OnDemote included) must have returned before we decide what is left to stop
	for _, in := range s.insts {
		select {
		case in.startSem <- struct{}{}:
			<-in.startSem
		case <-time.After(15 * time.Second):
		}
	}
	s.mu.Lock()
	objs = append([]*objRT(nil), s.objs...)
	s.mu.Unlock()
	var stopWG sync.WaitGroup
	for _, o := range objs {
		// every object, whatever the bookkeeping says: when a Start and a stop call overlapped, which of the
		// two took effect last is the library's business (Stop on a stopped election is a no-op)
		if o.el == nil {
			continue
		}
		stopWG.Add(1)
		go func(o *objRT) {
			defer stopWG.Done()
			_ = o.el.Stop()
		}(o)
	}
	close(s.teardownCh) // releases timed-out requests, blocked callbacks, delayed deliveries
	time.Sleep(7 * time.Second)
	vclock.Store(int64(s.now()))
	synctest.Wait()
	stopWG.Wait()
	s.snapshot("teardown")
	// watchers the library left open
	s.mu.Lock()
	ws := append([]*linkWatcher(nil), s.watchers...)
	s.mu.Unlock()
	for _, w := range ws {
		if !w.isStopped() {
			s.mu.Lock()
			s.tr.UnstoppedWatch++
			s.tr.UnstoppedWatchObjs = append(s.tr.UnstoppedWatchObjs, w.l.o.idx)
			s.mu.Unlock()
			w.Stop()
		}
	}
	s.wg.Wait()
	time.Sleep(time.Second)
	synctest.Wait()
	s.mu.Lock()
	s.tr.TeardownEnd = s.now()
	s.tr.History = append([]*refkv.Version(nil), s.store.History...)
	s.mu.Unlock()
	// anything of the library still alive?
	leaked := libraryGoroutines()
	if len(leaked) > 0 {
		s.tr.Leaked = leaked
		// The bubble cannot end while they live; this process is done for.
		fmt.Printf("VERIF-LEAK: %d goroutine(s) with library frames alive %v after every election was stopped: %s\n",
			len(leaked), s.tr.TeardownEnd-s.tr.End, firstLibFrame(leaked[0]))
		for _, g := range leaked {
			fmt.Println(g)
		}
		fmt.Println("--- API calls of the run ---")
		for _, l := range strings.Split(s.tr.Timeline(0, 0, false), "\n") {
			if strings.Contains(l, " API ") {
				fmt.Println(l)
			}
		}
		os.Stdout.Sync()
		os.Exit(3)
	}
}

func (s *Sim) dice() float64 {
	if s.lean {
		if n := len(s.plan.Dice); n > 0 {
			return s.plan.Dice[int(gid()%uint64(n))]
		}
		return 0.5
	}
	s.mu.Lock()
	defer s.mu.Unlock()
	v := 0.5
	if n := len(s.plan.Dice); n > 0 {
		v = s.plan.Dice[s.diceIdx%n]
		s.diceIdx++
	}
	s.tr.Dices = append(s.tr.Dices, &DiceRec{Seq: s.nextSeq(), T: s.now(), Value: v, Gid: gid()})
	return v
}

// libraryGoroutines returns the stacks of goroutines that have a frame of the
// election library (other than frames that merely call back into the harness).
func libraryGoroutines() []string {
	buf := make([]byte, 1<<20)
	for {
		n := runtime.Stack(buf, true)
		if n < len(buf) {
			buf = buf[:n]
			break
		}
		buf = make([]byte, 2*len(buf))
	}
	var out []string
	for _, g := range strings.Split(string(buf), "\n\n") {
		if strings.Contains(g, libPrefix) {
			out = append(out, g)
		}
	}
	return out
}

func firstLibFrame(stack string) string {
	for _, l := range strings.Split(stack, "\n") {
		if strings.HasPrefix(l, libPrefix) {
			if i := strings.LastIndex(l, "("); i > 0 {
				l = l[:i]
			}
			return strings.TrimPrefix(l, libPrefix)
		}
	}
	return "?"
}

// startHammer launches the concurrent API callers of a Hammer.
func (s *Sim) startHammer(h *Hammer) {
	for g := 0; g < h.N; g++ {
		s.wg.Add(1)
		go func(g int) {
			defer s.wg.Done()
			s.sleepI(h.From + time.Duration(g))
			n, calls := 0, 0
			defer func() {
				s.mu.Lock()
				s.tr.HammerCalls += calls
				s.mu.Unlock()
			}()
			for s.now() < h.To && !s.tearing.Load() && n < 400 {
				var o *objRT
				if s.lean {
					o = s.insts[h.Inst].curObj.Load()
				} else {
					o = s.current(h.Inst)
				}
				if o != nil && len(h.Calls) > 0 {
					switch h.Calls[(n+g)%len(h.Calls)] {
					case "isleader":
						_ = o.el.IsLeader()
					case "leaderid":
						_ = o.el.LeaderID()
					case "token":
						_ = o.el.Token()
					case "status":
						_ = o.el.Status()
					case "validate":
						ctx, c := context.WithTimeout(context.Background(), s.plan.H)
						_, _ = o.el.ValidateToken(ctx)
						c()
					case "validateordemote":
						ctx, c := context.WithTimeout(context.Background(), s.plan.H)
						_ = o.el.ValidateTokenOrDemote(ctx)
						c()
					case "register":
						s.registerCallbacks(o)
					}
					calls++
				}
				n++
				s.sleepI(h.Gap)
			}
		}(g)
	}
}

// disconnectedCB reads the (deprecated, getter-less) DisconnectedCB option of a
// connection under the connection's own mutex, as nats.go does when it
// dispatches the callback; the library sets it with SetDisconnectHandler.
func disconnectedCB(nc *nats.Conn) nats.ConnHandler {
	f, ok := reflect.TypeOf(nats.Conn{}).FieldByName("mu")
	if !ok {
		return nc.Opts.DisconnectedCB
	}
	mu := (*sync.RWMutex)(unsafe.Add(unsafe.Pointer(nc), f.Offset))
	mu.RLock()
	defer mu.RUnlock()
	return nc.Opts.DisconnectedCB
}

// sleepOrCtx waits d of virtual time, or until ctx is done; it reports whether teardown began.
// (Its name is what the watchdog looks for to recognise a callback that waits for virtual time.)
func (s *Sim) sleepOrCtx(ctx context.Context, d time.Duration) bool {
	t := time.NewTimer(d)
	defer t.Stop()
	select {
	case <-t.C:
	case <-ctx.Done():
	case <-s.teardownCh:
		return true
	}
	return false
}

// probeTarget: instance index, or -2 = whichever election object currently reports leadership
// (the first one; instance 0 when nobody does).
func (s *Sim) probeTarget(inst int) *objRT {
	if inst >= 0 {
		return s.current(inst)
	}
	s.mu.Lock()
	objs := append([]*objRT(nil), s.objs...)
	s.mu.Unlock()
	for _, o := range objs {
		if o.el.IsLeader() {
			return o
		}
	}
	return s.current(0)
}

// point: see Plan.Stalls.
func (s *Sim) point(name, id string) {
	var d time.Duration
	var cancelOn *objRT
	s.mu.Lock()
	for _, in := range s.insts {
		if in.spec.ID != id {
			continue
		}
		if in.pointCount == nil {
			in.pointCount = map[string]int{}
		}
		n := in.pointCount[name]
		in.pointCount[name] = n + 1
		for _, st := range s.plan.Stalls {
			if st.Inst == in.idx && st.Point == name && st.N == n {
				d = st.D
				s.tr.StallsHit++
				if st.CancelRun && len(in.objs) > 0 {
					cancelOn = in.objs[len(in.objs)-1]
				}
			}
		}
		break
	}
	s.mu.Unlock()
	if cancelOn != nil {
		s.mu.Lock()
		c := cancelOn.startCancel
		s.mu.Unlock()
		if c != nil {
			r := s.apiBegin(cancelOn, "CancelStartContext", nil)
			s.mu.Lock()
			cancelOn.started = false
			s.mu.Unlock()
			c()
			s.apiEnd(cancelOn, r, true, nil)
		}
	}
	if d > 0 {
		s.mu.Lock()
		rec := &StallRec{Point: name, FromT: s.now(), ToT: -1}
		for _, in := range s.insts {
			if in.spec.ID == id {
				rec.Inst = in.idx
			}
		}
		s.tr.StallRecs = append(s.tr.StallRecs, rec)
		s.mu.Unlock()
		s.sleepI(d)
		s.mu.Lock()
		rec.ToT = s.now()
		s.mu.Unlock()
	}
}
