package sim

import (
	"fmt"
	"time"
)

// OracleC13: arbitrary record contents and outside interference never make an
// instance claim on top of a record it did not write, do unbounded work, or
// keep a tampered leadership. (Crashes, hangs, spins and unbounded recursion
// end the process and are reported by the driver / watchdog.)
func OracleC13(tr *Trace) Verdict {
	p := tr.Plan
	v := Verdict{Premise: true}
	T := p.HeartbeatTimeout()
	claims := tr.Claims()
	// non-triviality: an outside write of something that is not the canonical payload of a live participant
	started := func(seq int) bool {
		for _, a := range tr.APIs {
			if a.Call == "Start" && a.Err == "" && a.CallSeq < seq {
				return true
			}
		}
		return false
	}
	extWrites := 0
	for _, op := range tr.Ops {
		if op.Obj >= 0 || !op.Applied {
			continue
		}
		extWrites++
		if started(op.ApplySeq) {
			pl := ParsePayload(op.Payload)
			canonicalLive := false
			if pl != nil && pl.Canonical && op.PrevLive != nil {
				canonicalLive = string(op.PrevLive.Value) == string(op.Payload)
			}
			if !canonicalLive {
				v.Nontrivial = true
			}
			switch {
			case op.Kind == OpDelete:
				v.Classes = append(v.Classes, "ext-delete")
			case pl == nil:
				v.Classes = append(v.Classes, "ext-write-not-a-json-object")
			case pl.Canonical:
				v.Classes = append(v.Classes, "ext-write-canonical-shape")
			default:
				v.Classes = append(v.Classes, "ext-write-json-object-non-canonical")
			}
		}
	}
	// (5) every promotion follows the instance's own successful acquisition write
	lastRet := map[uint64]*OpRec{}
	ei := 0
	edges := tr.Edges
	type ev struct {
		seq int
		op  *OpRec
		e   *Edge
	}
	var evs []ev
	for _, op := range tr.Ops {
		if op.Obj >= 0 && op.ReturnSeq >= 0 {
			evs = append(evs, ev{seq: op.ReturnSeq, op: op})
		}
	}
	for _, e := range edges {
		evs = append(evs, ev{seq: e.Seq, e: e})
	}
	_ = ei
	sortEvs := func() {
		for i := 1; i < len(evs); i++ {
			for j := i; j > 0 && evs[j].seq < evs[j-1].seq; j-- {
				evs[j], evs[j-1] = evs[j-1], evs[j]
			}
		}
	}
	sortEvs()
	for _, x := range evs {
		if x.op != nil {
			lastRet[x.op.Gid] = x.op
			continue
		}
		e := x.e
		if !e.Changed || !e.Value || e.T >= tr.End {
			continue
		}
		who := fmt.Sprintf("%s#%d", tr.ID(e.Inst), e.Obj)
		op := lastRet[e.Gid]
		if op == nil || op.Obj != e.Obj || (op.Kind != OpCreate && op.Kind != OpUpdate) || !op.Applied || op.Err != "" {
			what := "no store operation"
			if op != nil {
				what = fmt.Sprintf("%s (applied=%v err=%q)", op.Kind, op.Applied, op.Err)
			}
			v.Viols = append(v.Viols, Viol{At: e.T, Sig: "C13 promotion-without-own-successful-write",
				Msg: fmt.Sprintf("%s starts reporting leadership at %v but the last store operation of that goroutine was %s, not a successful Create/Update of its own; live record: %s", who, e.T, what, fmtVer(e.Live))})
			continue
		}
		if op.Kind == OpUpdate && op.PrevLive != nil && op.PrevLive.Actor != tr.ID(e.Inst) {
			in := p.Instances[e.Inst]
			lv, ok := DecodeLib(op.PrevLive.Value)
			stored := 0
			if ok {
				stored = lv.Priority
			}
			if !ok {
				v.Viols = append(v.Viols, Viol{At: e.T, Sig: "C13 promotion-over-unparsable-foreign-record",
					Msg: fmt.Sprintf("%s took over %s, which is not a decodable payload, and claims leadership at %v", who, fmtVer(op.PrevLive), e.T)})
			} else if !in.Takeover || in.Priority <= stored {
				v.Viols = append(v.Viols, Viol{At: e.T, Sig: "C13 promotion-over-foreign-record-without-strictly-higher-priority",
					Msg: fmt.Sprintf("%s (priority %d, takeover %v) replaced %s (stored priority %d) and claims leadership at %v", who, in.Priority, in.Takeover, fmtVer(op.PrevLive), stored, e.T)})
			}
		}
	}
	// (4) bounded work per election object
	dur := tr.End
	type cnt struct{ ops, events, probes, notifs, starts int }
	cs := map[int]*cnt{}
	get := func(o int) *cnt {
		if cs[o] == nil {
			cs[o] = &cnt{}
		}
		return cs[o]
	}
	for _, op := range tr.Ops {
		if op.Obj >= 0 && op.IssueT < tr.End {
			get(op.Obj).ops++
		}
	}
	for _, w := range tr.WatchEvs {
		if !w.Dropped && w.T < tr.End {
			get(w.Obj).events++
		}
	}
	for _, a := range tr.APIs {
		switch a.Call {
		case "Start":
			get(a.Obj).starts++
		case "ValidateToken", "ValidateTokenOrDemote":
			get(a.Obj).probes++
		}
	}
	for _, n := range tr.Notifs {
		get(n.Obj).notifs++
	}
	for obj, c := range cs {
		inst := tr.ObjInst()[obj]
		vi := p.Instances[inst].VI
		if vi <= 0 {
			vi = 5 * time.Second
		}
		bound := 8*(c.events+int(dur/(500*time.Millisecond))+1+c.starts) + 2*(int(dur/p.H)+1) + (int(dur/vi) + 1) + c.probes + 3*c.notifs + 8
		if c.ops > bound {
			v.Viols = append(v.Viols, Viol{At: tr.End, Sig: "C13 unbounded-store-work",
				Msg: fmt.Sprintf("%s#%d issued %d store operations in %v; bound from %d delivered watch events, periodic ticks, heartbeat/validation ticks, %d probes, %d notifications, %d starts is %d", tr.ID(inst), obj, c.ops, dur, c.events, c.probes, c.notifs, c.starts, bound)})
		}
	}
	// (6) a leader whose record is rewritten or deleted from outside is demoted within H + 2T
	// (only when the store answers that instance: no op faults / windows on it)
	for _, op := range tr.Ops {
		if op.Obj >= 0 || !op.Applied || op.PrevLive == nil {
			continue
		}
		for _, c := range claims {
			if c.FromSeq < op.ApplySeq && (c.ToSeq < 0 || c.ToSeq > op.ApplySeq) && p.Instances[c.Inst].Group == op.Key && op.PrevLive.Actor == tr.ID(c.Inst) {
				if p.instFaulted(c.Inst) {
					continue
				}
				deadline := op.ApplyT + p.H + 2*T + p.MaxRTT()
				if deadline >= tr.End {
					continue
				}
				if c.ToSeq < 0 || c.ToT > deadline {
					v.Viols = append(v.Viols, Viol{At: deadline, Sig: "C13 tampered-leader-not-demoted-in-time",
						Msg: fmt.Sprintf("%s#%d led (token %.8s) when an outside party changed its record at %v (%s -> %s); it still reports leadership after %v (bound H+2T+RTT)", tr.ID(c.Inst), c.Obj, c.Token, op.ApplyT, fmtVer(op.PrevLive), fmtVer(op.Ver), deadline)})
				}
			}
		}
	}
	if extWrites == 0 {
		v.Nontrivial = false
	}
	sortViols(v.Viols)
	return v
}

// instFaulted: the plan injects store faults on this instance.
func (p *Plan) instFaulted(i int) bool {
	for _, w := range p.Windows {
		if w.Inst == i {
			return true
		}
	}
	in := p.Instances[i]
	for _, r := range in.Rules {
		if r.Fault != FaultNone {
			return true
		}
	}
	for _, h := range in.Health {
		if h != 0 {
			return true // unhealthy / slow ticks skip or delay the refresh that would notice the change
		}
	}
	return false
}
