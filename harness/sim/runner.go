package sim

import (
	"encoding/json"
	"fmt"
	"os"
	"strings"
	"testing"

	"pgregory.net/rapid"

	"verif/harness/report"
)

// Verdict is what an oracle says about one trace.
type Verdict struct {
	Premise    bool // the property's premise holds on this plan/trace (else the case is only counted)
	Nontrivial bool
	Classes    []string
	Viols      []Viol
}

type Oracle func(tr *Trace) Verdict

type CheckSpec struct {
	Prop   string
	Rule   string
	Gen    func(t *rapid.T) *Plan
	Oracle Oracle
	// Fixed plans executed before the generated ones (regression / grid cells).
	Fixed       func() []*Plan
	Assumptions []string
}

func writeCurrent(p *Plan) {
	if path := os.Getenv("VERIF_CURRENT"); path != "" {
		if os.Getenv("VERIF_CURRENT_PERPID") != "" {
			path = fmt.Sprintf("%s.%d", path, os.Getpid())
		}
		b, _ := json.Marshal(map[string]any{"property": os.Getenv("VERIF_PROP"), "input": p})
		_ = os.WriteFile(path, b, 0o644)
	}
}

// judge runs one plan and records the outcome. It returns the text of the
// first violation that is not a listed known finding ("" when none).
var lastPlan *Plan

func judge(t *testing.T, r *report.R, spec *CheckSpec, p *Plan) string {
	writeCurrent(p)
	lastPlan = p
	tr := Run(t, p)
	if tr.HarnessErr != "" {
		t.Fatalf("harness error: %s", tr.HarnessErr)
	}
	v := spec.Oracle(tr)
	if !v.Premise {
		r.PremiseFalse()
		r.Case("", false, append(v.Classes, "premise-false")...)
		return ""
	}
	h := report.Hash(p)
	if n := tr.OverlappingStarts(); n > 0 {
		v.Classes = append(v.Classes, "start-issued-while-a-stop-call-on-the-same-election-was-under-way")
	}
	r.Case(h, v.Nontrivial, v.Classes...)
	if tr.ExcludedRestartAfterFailedStop > 0 {
		r.Class("excluded:restart-after-unclean-stop(known finding C09/C20: restarted as a new election instead)", tr.ExcludedRestartAfterFailedStop)
	}
	key := strings.Join(v.Classes, ",")
	if len(key) > 60 {
		key = key[:60]
	}
	if v.Nontrivial {
		r.Sample(key, map[string]any{"plan": p, "classes": v.Classes, "trace_summary": tr.Summary()})
	}
	first := ""
	for _, x := range v.Viols {
		if r.IsKnown(x.Sig) {
			continue
		}
		msg := fmt.Sprintf("%s\n--- trace excerpt ---\n%s", x.Msg, tr.excerpt(x.At, 4*p.H+p.TTL/2))
		r.Violation(report.Violation{Signature: x.Sig, Message: msg, Replay: r.SaveReplay(p), Size: len(p.JSON())})
		if first == "" {
			first = x.Sig + ": " + x.Msg
		}
	}
	return first
}

// RunCheck is the body of every simulator-based TestCxx.
func RunCheck(t *testing.T, spec CheckSpec) {
	r := report.New(spec.Prop)
	defer r.Write()
	// Race-detector builds: when the detector fires inside a bubble, testing/synctest ends the test
	// goroutine (FailNow) as soon as the bubble returns, before the oracle runs. The reports are
	// therefore collected here, on the way out, and belong to the plan that was running.
	defer func() {
		if !raceEnabled || lastPlan == nil {
			return
		}
		for _, rr := range newRaceReports() {
			sig := rr.Sig
			if !rr.Lib {
				sig = "HARNESS " + sig
			}
			if r.IsKnown(sig) {
				continue
			}
			r.Violation(report.Violation{Signature: sig, Message: rr.Text, Replay: r.SaveReplay(lastPlan), Size: len(lastPlan.JSON())})
		}
	}()
	r.Rule = spec.Rule
	r.MaxSamples = 4
	for _, a := range spec.Assumptions {
		r.Assume(a)
	}
	r.Assume("virtual time (testing/synctest), reference store refkv (validated against nats-server by C14), GOMAXPROCS=1; same-instant goroutine order and select choice are the runtime's, not enumerated")
	if os.Getenv("VERIF_OVERLAY_SITES") == "0" {
		r.Assume("jitter overlay inactive: the library's jitter draws were NOT controlled in this run")
	}
	var rp Plan
	if is, err := report.LoadReplay(&rp); is {
		if err != nil {
			t.Fatalf("replay: %v", err)
		}
		n := report.EnvInt("VERIF_REPLAY_RUNS", 5)
		hits := 0
		for i := 0; i < n; i++ {
			if msg := judge(t, r, &spec, &rp); msg != "" {
				hits++
				if hits == 1 {
					t.Errorf("%s", msg)
				}
			}
		}
		fmt.Printf("replay: violation reproduced in %d of %d executions\n", hits, n)
		return
	}
	fixed := LoadRegressions(spec.Prop)
	if spec.Fixed != nil {
		fixed = append(fixed, spec.Fixed()...)
	}
	if len(fixed) > 0 {
		r.Extra("sum_regression_and_grid_plans", len(fixed))
		t.Run("fixed", func(t *testing.T) {
			for _, p := range fixed {
				if msg := judge(t, r, &spec, p); msg != "" {
					t.Errorf("%s", msg)
				}
			}
		})
	}
	if spec.Gen != nil {
		t.Run("generated", func(t *testing.T) {
			rapid.Check(t, func(rt *rapid.T) {
				p := spec.Gen(rt)
				if msg := judge(t, r, &spec, p); msg != "" {
					rt.Fatalf("%s", msg)
				}
			})
		})
	}
}

// Summary is a compact description of a run for evidence samples.
func (tr *Trace) Summary() map[string]any {
	claims := tr.Claims()
	var cs []string
	for _, c := range claims {
		to := "end"
		if c.ToSeq >= 0 {
			to = c.ToT.String()
		}
		cs = append(cs, fmt.Sprintf("%s#%d leads [%v, %s) token %.8s", tr.ID(c.Inst), c.Obj, c.FromT, to, c.Token))
	}
	if len(cs) > 12 {
		cs = append(cs[:12], fmt.Sprintf("… %d more", len(cs)-12))
	}
	return map[string]any{"store_ops": len(tr.Ops), "versions": len(tr.History), "flag_edges": len(tr.Edges), "snapshots": len(tr.Snaps),
		"callbacks": len(tr.CBs), "api_calls": len(tr.APIs), "terms": cs, "virtual_duration": tr.End.String()}
}

// LoadRegressions reads the committed regression plans of a property
// (/verif/regressions/<prop>/*.json): shrunk failures of defects that were
// fixed or recorded, re-executed before the generated cases.
func LoadRegressions(prop string) []*Plan {
	dir := os.Getenv("VERIF_REGRESS_DIR")
	if dir == "" {
		dir = "/verif/regressions"
	}
	ents, err := os.ReadDir(dir + "/" + prop)
	if err != nil {
		return nil
	}
	var out []*Plan
	for _, e := range ents {
		if !strings.HasSuffix(e.Name(), ".json") {
			continue
		}
		b, err := os.ReadFile(dir + "/" + prop + "/" + e.Name())
		if err != nil {
			continue
		}
		var w struct {
			Input *Plan `json:"input"`
		}
		if json.Unmarshal(b, &w) == nil && w.Input != nil {
			w.Input.Note = "regression:" + e.Name()
			out = append(out, w.Input)
		}
	}
	return out
}

func tier() string      { return report.Tier() }
func shard() (int, int) { return report.Shard() }

func jsonUnmarshal(b []byte, v any) error { return json.Unmarshal(b, v) }
