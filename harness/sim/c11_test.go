package sim

import (
	"testing"
	"time"

	"pgregory.net/rapid"
)

var knobsConn = Knobs{MinInst: 1, MaxInst: 3, LatFrac: 0.25, WatchDelayH: 1, Faults: true, Takeover: true, Stops: true, StopPhases: true, Ext: true, Conn: true, LongH: true,
	Promote: true, MinHorizonH: 12, MaxHorizonH: 30}

// genConnTermChangePlan: the leader is cut off (disconnect notification, no reconnect ever), loses its term to
// an outside deletion that its heartbeat discovers, and - the store itself stays reachable - re-acquires the
// key before the grace period is over: at disconnect + grace it leads again, in another term, and the grace
// mechanism has to demote it all the same ("if no reconnect notification arrived and it still leads").
func genConnTermChangePlan(t *rapid.T) *Plan {
	h := rapid.SampledFrom([]time.Duration{200 * time.Millisecond, 300 * time.Millisecond}).Draw(t, "H")
	p := &Plan{Profile: "conn/term-change-inside-the-grace-period", H: h, TTL: 3 * h, SnapEvery: odd(h/3 + 53*time.Microsecond), Dice: []float64{0}}
	p.Instances = []Inst{{ID: "m", Group: "g0", Monitored: true, Lat: []time.Duration{1, 3}, Promote: rapid.SampledFrom([]int{0, 1}).Draw(t, "promote"),
		Grace: rapid.SampledFrom([]time.Duration{0, 0, 10 * h}).Draw(t, "grace")}}
	t0 := odd(2*h + time.Duration(rapid.Int64Range(0, int64(2*h)).Draw(t, "t_disconnect")))
	p.Timeline = []Action{{At: 1, Kind: ActStart, Inst: 0}, {At: t0, Kind: ActDisconnect, Inst: 0},
		{At: t0 + odd(time.Duration(rapid.Int64Range(int64(time.Millisecond), int64(h)).Draw(t, "del_after"))), Kind: ActExtDelete, Inst: -1, Key: "g0"}}
	p.Horizon = t0 + p.graceOf(0) + 6*h + p.TTL + 2*time.Second
	sortTimeline(p)
	return p
}

func genConnPlan(t *rapid.T) *Plan {
	if rapid.IntRange(0, 7).Draw(t, "term_change_shape") == 0 {
		return genConnTermChangePlan(t)
	}
	p := GenPlan(t, "conn", knobsConn)
	// the first instance is always monitored and gets a structured notification sequence from the grammar (D|R|C)*
	in := &p.Instances[0]
	if !in.Monitored {
		in.Monitored = true
		in.DemoteDur = 0
		in.Grace = rapid.SampledFrom([]time.Duration{0, 2 * p.H, 2*p.H + 1, 5 * p.H}).Draw(t, "grace0")
	}
	// make the monitored instance the likely leader when the notifications begin: it starts first, the others
	// later; its own early stops and link faults are pushed behind the first notifications in 3 of 4 plans
	settle := rapid.IntRange(0, 3).Draw(t, "settle") > 0
	firstStart := true
	for i := range p.Timeline {
		a := &p.Timeline[i]
		if a.Inst == 0 && a.Kind == ActStart && firstStart {
			a.At = 1
			firstStart = false
		} else if a.Inst != 0 && a.Kind == ActStart && a.At < 2*p.H {
			a.At += odd(2 * p.H)
		} else if settle && a.Inst == 0 && (a.Kind == ActStop || a.Kind == ActStopCtx || a.Kind == ActStart) && a.At < 8*p.H {
			a.At += odd(8*p.H + p.graceOf(0))
		}
	}
	if settle {
		in.Rules = nil
		var ws []Window
		for _, w := range p.Windows {
			if w.Inst != 0 || w.From > 6*p.H {
				ws = append(ws, w)
			}
		}
		p.Windows = ws
	}
	G := p.graceOf(0)
	cur := odd(time.Duration(rapid.Int64Range(int64(p.H), int64(6*p.H)).Draw(t, "first_notif")))
	n := rapid.IntRange(1, 7).Draw(t, "n_notif")
	for i := 0; i < n && cur < p.Horizon; i++ {
		kind := rapid.SampledFrom([]string{ActDisconnect, ActDisconnect, ActDisconnect, ActReconnect, ActReconnect, ActClosed}).Draw(t, "kind")
		a := Action{At: cur, Kind: kind, Inst: 0}
		if rapid.IntRange(0, 3).Draw(t, "burst") == 0 {
			// a flapping connection: the client's callback goroutine delivers several notifications back to back
			a.Then = rapid.SliceOfN(rapid.SampledFrom([]string{ActDisconnect, ActReconnect}), 1, 3).Draw(t, "then")
		}
		p.Timeline = append(p.Timeline, a)
		switch rapid.IntRange(0, 6).Draw(t, "gap") {
		case 0:
			cur += 2
		case 1:
			cur += odd(time.Duration(rapid.Int64Range(1, int64(100*time.Millisecond)).Draw(t, "g"))) // inside the 100ms stabilisation sleep
		case 2:
			cur += odd(time.Duration(rapid.Int64Range(int64(100*time.Millisecond), int64(400*time.Millisecond)).Draw(t, "g")))
		case 3:
			cur += G - rapid.SampledFrom([]time.Duration{1, 1, 0}).Draw(t, "at_expiry")
		case 4:
			cur += G + 1
		default:
			cur += odd(time.Duration(rapid.Int64Range(1, int64(2*G)).Draw(t, "g")))
		}
	}
	if cur+G+time.Second > p.Horizon {
		p.Horizon = cur + G + 2*time.Second
	}
	sortTimeline(p)
	return p
}

func TestC11(t *testing.T) {
	RunCheck(t, CheckSpec{Prop: "C11",
		Rule:        "a monitored leader (handlers read back from an unconnected *nats.Conn and invoked from one dispatcher goroutine per connection) plus 0-2 competitors; notification sequences from the grammar (disconnect|reconnect|closed)* with gaps {0 = a burst of 2-4 notifications delivered back to back by the callback goroutine, 2ns, inside the 100ms stabilisation sleep, 100-400ms, grace-1ns, exactly grace (the instant the timer fires), grace+1ns, up to 2 x grace}; grace in {default max(3H,5s), 2H, 2H+1ns, 5H}, heartbeat intervals 100ms..5s (2.5s: the default is 7.5s); combined with store faults/partitions, outside writes and deletes, priority takeover, stops at times and op phases; oracle: (1) no grace demotion before latest disconnect + grace, (2) a leader that got a disconnect, no further notification and no stop, and still leads, is down with OnDemote entered exactly at disconnect + grace, (3) after a reconnect the verification keeps a leader whose record carried its id and token throughout and demotes (with OnDemote) one whose record never did; no panic / deadlock (process level). Non-trivial = a disconnect delivered to a leader; distinct by plan hash.",
		Gen:         genConnPlan,
		Oracle:      OracleC11,
		Assumptions: []string{"connection notifications are delivered sequentially per connection (one dispatcher goroutine), as nats.go does", "windows containing a 'closed' notification are not judged by clause (2): the statement only speaks about reconnects"}})
}
