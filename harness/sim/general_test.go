package sim

import (
	"testing"

	"pgregory.net/rapid"
)

// knobsAll: every fault class of the harness at once.
var knobsAll = Knobs{MinInst: 1, MaxInst: 5, MaxGroups: 2, LatFrac: 0.35, WatchDelayH: 3, Faults: true, WatchDrops: true, WatchFail: true,
	Takeover: true, Stops: true, StopPhases: true, Ext: true, Conn: true, Health: true, Probes: true, Promote: true, DemoteDur: true,
	LongH: true, NewObjects: true, MinHorizonH: 15, MaxHorizonH: 45}

// knobsTerms: many terms per instance.
var knobsTerms = Knobs{MinInst: 2, MaxInst: 5, LatFrac: 0.3, WatchDelayH: 1, Faults: true, Takeover: true, Stops: true, StopPhases: true,
	Conn: true, Health: true, Probes: true, Promote: true, NewObjects: true, MinHorizonH: 30, MaxHorizonH: 80}

// knobsMutations: C01 - no outside writer premise is per mutation, so it may be present.
var knobsMutations = Knobs{MinInst: 2, MaxInst: 6, MaxGroups: 3, LatFrac: 0.4, WatchDelayH: 2, Faults: true, WatchDrops: true, Takeover: true, Stops: true,
	StopPhases: true, Ext: true, Promote: true, NewObjects: true, LongH: true, MinHorizonH: 15, MaxHorizonH: 50}

func TestC01(t *testing.T) {
	RunCheck(t, CheckSpec{Prop: "C01",
		Rule:   "plans with 2-6 instances over 1-3 groups in one bucket: start/stop/restart/StopWithContext(DeleteKey on/off) at times and at phases of in-flight operations, every link fault (error, request time-out, lost acknowledgement, partition windows short/longer than TTL/permanent), lost and delayed watch events, priorities with ties and mixed takeover flags, an outside writer; oracle: every applied Create/Update/Delete of every instance in the complete store log is creation over no live record, a same-identity same-token refresh of the writer's own version against that revision, a takeover by an enabled instance with strictly higher priority than the stored one, or a delete of the writer's own version inside its StopWithContext{DeleteKey}; key == own group. Non-trivial = >=2 instances and (>=2 owner changes or a mutation applied while another instance claims leadership); distinct by plan hash.",
		Gen:    MixReacquire("mutations", func(t *rapid.T) *Plan { return GenPlan(t, "mutations", knobsMutations) }),
		Oracle: OracleC01})
}

func TestC05(t *testing.T) {
	RunCheck(t, CheckSpec{Prop: "C05",
		Rule:   "plans built for many terms per instance (30-80 H long; demotion causes: heartbeat faults, partitions, tampering, health scripts, preemption, grace expiry, stops; recovery, restarts of the same object and as a new object); oracle over every record version ever written: acquisition tokens never appeared before in the key, refreshes carry the replaced version's token and id, OnPromote/Token()/Status().Token equal the stored token. Non-trivial = some instance has >= 2 terms; distinct by plan hash.",
		Gen:    MixReacquire("terms", func(t *rapid.T) *Plan { return GenPlan(t, "terms", knobsTerms) }),
		Oracle: OracleC05})
}

func TestC08(t *testing.T) {
	RunCheck(t, CheckSpec{Prop: "C08",
		Rule:   "plans under every fault class of the harness at once (op faults, partitions, lost/delayed watch events, outside writes, priority preemption, health scripts, connection notifications, ValidateTokenOrDemote probes, stops at op phases, restarts); oracle: per election object OnPromote/OnDemote entries strictly alternate starting with a promotion, the k-th promotion carries the k-th term's token, and at every quiescent snapshot outside a stop call IsLeader() == (#OnPromote - #OnDemote == 1). Non-trivial = a run with >= 1 demotion by a cause other than Stop (cause histogram in classes); distinct by plan hash.",
		Gen:    MixReacquire("all", func(t *rapid.T) *Plan { return GenPlan(t, "all", knobsAll) }),
		Oracle: OracleC08})
}

func TestC18(t *testing.T) {
	RunCheck(t, CheckSpec{Prop: "C18",
		Rule:   "plans under every fault class; Status() of every election object at every quiescent point (before/after each timeline action and on a grid of H/3); oracle: IsLeader <=> State==LEADER, documented states only, a leader shows its own id, its term token and the revision of its latest successful write answered in time, STOPPED and not leader after a stop, is_leader gauge == IsLeader(), recorded transitions form a chain (or start from CANDIDATE after Start). Non-trivial = >= 3 transitions on some object and a snapshot taken while one of its operations is in flight; distinct by plan hash.",
		Gen:    MixReacquire("all", func(t *rapid.T) *Plan { return GenPlan(t, "all", knobsAll) }),
		Oracle: OracleC18})
}

func TestC19(t *testing.T) {
	RunCheck(t, CheckSpec{Prop: "C19",
		Rule:   "plans under every fault class with OnPromote callbacks that block on their context (or work in steps polling it); oracle at every quiescent snapshot: context not done while the object still leads that term, done once the term has ended (claim-down edge for any cause, or a stop call begun). Non-trivial = a term with a blocking callback that ended by a cause other than Stop; distinct by plan hash.",
		Gen:    MixReacquire("all", func(t *rapid.T) *Plan { return GenPlan(t, "all", knobsAll) }),
		Oracle: OracleC19})
}

var knobsHealth = Knobs{MinInst: 1, MaxInst: 3, LatFrac: 0.2, WatchDelayH: 0.5, Health: true, Stops: true, Promote: true, LongH: true, Conn: true, MinHorizonH: 30, MaxHorizonH: 70}

func TestC12(t *testing.T) {
	RunCheck(t, CheckSpec{Prop: "C12",
		Rule: "1-3 instances with a scripted health checker (healthy / unhealthy / slow-then-healthy / slow-then-unhealthy = blocks until the supplied context is done), thresholds MaxConsecutiveFailures in {0(->3),1,2,3,5, 2^31, 2^32+1}, heartbeat intervals 100ms..3s (the heartbeat time-out switches from 1s to H/2 above 2s), scripts that over-weight runs of threshold-1, threshold, threshold+1 unhealthy results, runs of 30-70 H so that an instance leads several terms (re-acquires after its record lapses), occasional stops/restarts, connection monitoring with disconnect/reconnect/closed notifications, in a third of the plans isolated transient failures of 1-6 of the instance's first 25 refreshes; oracle: a reference consecutive-failure counter per term fed with the checker's own call log decides on which tick the health mechanism must demote (exactly at the threshold, never below, reset by a healthy result and by a new term), plus ctx deadline <= 100ms, no refresh on unhealthy ticks, OnDemote, FOLLOWER afterwards and re-election of a sole candidate within 600ms + latencies of the record's lapse. Non-trivial = a script with >= 1 unhealthy result reached a leader; distinct by plan hash.",
		Gen: func(t *rapid.T) *Plan {
			if rapid.IntRange(0, 6).Draw(t, "straggler") == 0 {
				return GenStragglerPlan(t, "health")
			}
			p := GenPlan(t, "health", knobsHealth)
			for i := range p.Instances {
				if !p.Instances[i].HasHealth && i == 0 {
					p.Instances[i].HasHealth = true
					p.Instances[i].MCF = rapid.SampledFrom([]int{0, 1, 2, 3, 5, 1 << 31, 1<<32 + 1}).Draw(t, "mcf0")
					p.Instances[i].Health = GenHealthScript(t, p.Instances[i].MCF)
				}
			}
			// isolated transient refresh failures of an instance with a checker: a healthy answer counts
			// whatever becomes of the store write of the same tick
			if rapid.IntRange(0, 2).Draw(t, "hb_faults") == 0 {
				for i := range p.Instances {
					if !p.Instances[i].HasHealth {
						continue
					}
					for _, n := range rapid.SliceOfNDistinct(rapid.IntRange(0, 24), 1, 6, rapid.ID[int]).Draw(t, "hb_fault_n") {
						p.Instances[i].Rules = append(p.Instances[i].Rules, OpRule{Kind: OpUpdate, N: n, Fault: FaultErr,
							ErrKind: rapid.SampledFrom([]string{ErrKTimeout, ErrKNoResponders, ErrKClosed}).Draw(t, "hb_fault_err")})
					}
				}
			}
			return p
		},
		Oracle: OracleC12})
}

var knobsProbe = Knobs{MinInst: 1, MaxInst: 3, LatFrac: 0.3, WatchDelayH: 1, Faults: true, Takeover: true, Stops: true, Ext: true, Probes: true,
	ExtMax: 8, ProbeMax: 14, ProbeAtExt: true, MinHorizonH: 12, MaxHorizonH: 30}

func TestC04(t *testing.T) {
	RunCheck(t, CheckSpec{Prop: "C04",
		Rule:   "1-3 instances with ValidateToken / ValidateTokenOrDemote probes (contexts: background, already cancelled, deadline, cancelled mid-call) at generated times and around outside writes; record contents from a descriptor grammar (canonical, reordered, previous-term / near-miss / escaped tokens, other ids, wrong types, missing fields, duplicate and case-variant keys, arrays, scalars, non-JSON, BOM, invalid UTF-8, deep nesting, 256KiB-1MiB values, raw bytes), deletions, takeovers, stops, Get faults and partitions; oracle: true => a Get of the caller inside the call returned, and a version live during the call is, a JSON object with string id == own id and string token == the term token (independent token-stream reader), leader at call, context not cancelled; false is required otherwise; a stable own canonical record with a clean read must yield true; ValidateTokenOrDemote false => IsLeader()==false at return and OnDemote invoked for the term. Non-trivial = a probe whose call window overlaps a record change, or a probed record that is a JSON object but not the canonical payload; distinct by plan hash.",
		Gen:    func(t *rapid.T) *Plan { return GenPlan(t, "probe", knobsProbe) },
		Oracle: OracleC04})
}

var knobsTamper = Knobs{MinInst: 1, MaxInst: 4, LatFrac: 0.3, WatchDelayH: 1, Takeover: true, Stops: true, Ext: true, Probes: true,
	ExtMax: 10, ProbeAtExt: true, Promote: true, MinHorizonH: 12, MaxHorizonH: 30}

func TestC13(t *testing.T) {
	RunCheck(t, CheckSpec{Prop: "C13",
		Rule: "1-4 instances (followers, a leader, takeover-enabled candidates) while an outside party writes values from the descriptor grammar of C04 (plus raw bytes, phantom payloads with priorities above/below/equal, empty and very large values) and deletes the key at generated times; latencies include 0; oracle: no crash / hang / spin / unbounded recursion (process-level, watchdog), store operations per object bounded by delivered events and ticks, every promotion directly follows the object's own successful Create or strictly-higher-priority takeover of a decodable record, a leader whose record is rewritten or deleted is demoted within H+2T+RTT; one plan in five is the shape 'candidates (with and without takeover) start while the key holds an outside party's record ({} / null / id-less / non-JSON / empty), which is deleted later': they must be back for that vacancy within the bound of C06 (no instance stops responding). Non-trivial = an outside write that is not the canonical payload currently live, landing after some instance started; distinct by plan hash.",
		Gen: MixShapes(func(t *rapid.T) *Plan { return GenPlan(t, "tamper", knobsTamper) },
			func(t *rapid.T) *Plan { return genVacancyPlanCause(t, "foreign-record") }),
		Oracle: func(tr *Trace) Verdict {
			v := OracleC13(tr)
			if tr.Plan.Profile == "vacancy" {
				// "or stops responding": candidates that found an outside party's record when they started are
				// back for the vacancy once it is removed (the oracle of C06 on the plan shape of C06)
				for _, x := range OracleC06(tr).Viols {
					x.Sig = "C13 stops-responding after a foreign record: " + x.Sig
					v.Viols = append(v.Viols, x)
				}
				v.Nontrivial = true
				v.Classes = append(v.Classes, "foreign-record-then-vacancy")
				sortViols(v.Viols)
			}
			return v
		}})
}

func TestC17Rounds(t *testing.T) {
	RunCheck(t, CheckSpec{Prop: "C17",
		Rule:   "(simulator part) plans under every fault class; every acquisition round (identified by the goroutine of its 'attempting_acquire_with_retry' entry and the store operations of that goroutine) must make its first Create 10ms + 90ms x dice after it began, at most four Creates, consecutive attempts separated by the previous attempt's end plus CalculateBackoff(default, retry) computed with the supplied dice, and no Create after a stop call. Non-trivial = a plan with a round of >= 2 attempts; distinct by plan hash.",
		Gen:    func(t *rapid.T) *Plan { return GenPlan(t, "all", knobsAll) },
		Oracle: OracleC17Rounds})
}
