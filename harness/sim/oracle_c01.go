package sim

import (
	"fmt"
)

// OracleC01: legitimacy of every applied mutation of the complete store history.
func OracleC01(tr *Trace) Verdict {
	p := tr.Plan
	v := Verdict{Premise: true}
	ownerChanges, overlap := 0, 0
	claims := tr.Claims()
	claimedAt := func(seq int, notInst int) bool {
		for _, c := range claims {
			if c.Inst != notInst && c.FromSeq < seq && (c.ToSeq < 0 || c.ToSeq > seq) {
				return true
			}
		}
		return false
	}
	for _, op := range tr.Ops {
		if op.Obj < 0 || !op.Applied || op.ApplyT >= tr.End {
			continue
		}
		if op.Kind != OpCreate && op.Kind != OpUpdate && op.Kind != OpDelete {
			continue
		}
		in := p.Instances[op.Inst]
		who := fmt.Sprintf("%s#%d", in.ID, op.Obj)
		if claimedAt(op.ApplySeq, op.Inst) {
			overlap++
		}
		if op.Key != in.Group {
			v.Viols = append(v.Viols, Viol{At: op.ApplyT, Sig: "C01 cross-group-mutation",
				Msg: fmt.Sprintf("%s (group %s) applied %s on key %s at %v", who, in.Group, op.Kind, op.Key, op.ApplyT)})
			continue
		}
		prev := op.PrevLive
		switch op.Kind {
		case OpCreate:
			if prev != nil {
				v.Viols = append(v.Viols, Viol{At: op.ApplyT, Sig: "C01 create-over-live-record",
					Msg: fmt.Sprintf("%s: Create applied at %v while %s was live (reference model self-check)", who, op.ApplyT, fmtVer(prev))})
			}
			ownerChanges++
			if pl := ParsePayload(op.Payload); pl == nil || !pl.Canonical || pl.IDs[0] != in.ID {
				v.Viols = append(v.Viols, Viol{At: op.ApplyT, Sig: "C01 create-with-foreign-identity", Msg: fmt.Sprintf("%s created the record with payload %q", who, op.Payload)})
			}
		case OpUpdate:
			if prev == nil {
				v.Viols = append(v.Viols, Viol{At: op.ApplyT, Sig: "C01 update-without-live-record",
					Msg: fmt.Sprintf("%s: Update(expected %d) applied at %v although no live record existed (it revived a deleted or lapsed key)", who, op.Exp, op.ApplyT)})
				continue
			}
			pl := ParsePayload(op.Payload)
			if pl == nil || !pl.Canonical || pl.IDs[0] != in.ID {
				v.Viols = append(v.Viols, Viol{At: op.ApplyT, Sig: "C01 update-with-foreign-identity", Msg: fmt.Sprintf("%s updated the record with payload %q", who, op.Payload)})
				continue
			}
			pp := ParsePayload(prev.Value)
			ownPrev := prev.Actor == in.ID
			if ownPrev {
				// refresh: same identity and token, against that exact revision
				if pp == nil || len(pp.Tokens) != 1 || pp.Tokens[0] != pl.Tokens[0] {
					v.Viols = append(v.Viols, Viol{At: op.ApplyT, Sig: "C01 refresh-with-different-token",
						Msg: fmt.Sprintf("%s replaced its own %s at %v with a different token %.8s", who, fmtVer(prev), op.ApplyT, pl.Tokens[0])})
				}
				continue
			}
			// replacement of somebody else's live record: only legitimate preemption
			ownerChanges++
			lv, ok := DecodeLib(prev.Value)
			stored := 0
			if ok {
				stored = lv.Priority
			}
			if !in.Takeover || !(in.Priority > stored) {
				v.Viols = append(v.Viols, Viol{At: op.ApplyT, Sig: fmt.Sprintf("C01 illegitimate-replacement takeover=%v", in.Takeover),
					Msg: fmt.Sprintf("%s (priority %d, takeover enabled: %v) replaced %s (stored priority %d) at %v", who, in.Priority, in.Takeover, fmtVer(prev), stored, op.ApplyT)})
			}
		case OpDelete:
			if !op.InStopCtxDelete {
				v.Viols = append(v.Viols, Viol{At: op.ApplyT, Sig: "C01 delete-outside-graceful-shutdown",
					Msg: fmt.Sprintf("%s deleted key %s at %v outside a StopWithContext{DeleteKey:true} call", who, op.Key, op.ApplyT)})
				continue
			}
			// (a record written by the outside party that is byte-for-byte what the stopping term itself
			// would have written - same id, same token - cannot be told from the own one and counts as own)
			indistinguishable := false
			if prev != nil && prev.Actor != in.ID {
				for _, a := range tr.APIs {
					if a.Obj == op.Obj && a.Call == "StopWithContext" && a.CallSeq < op.IssueSeq && (a.RetSeq < 0 || a.RetSeq > op.IssueSeq) {
						if lv, ok := DecodeLib(prev.Value); ok && lv.ID == in.ID && lv.Token == a.TokenAtCall && a.TokenAtCall != "" {
							indistinguishable = true
						}
					}
				}
			}
			if prev != nil && prev.Actor != in.ID && !indistinguishable {
				sig, how := "C01 delete-of-foreign-version by StopWithContext(DeleteKey)", ""
				if p.PlainDelete {
					// a store without leader.RevisionDeleter: the library looks (Get) and deletes in two steps
					sig += " through a store without revision-checked delete"
					how = " (the store of this plan offers no revision-checked delete: look and delete are two operations)"
				}
				v.Viols = append(v.Viols, Viol{At: op.ApplyT, Sig: sig,
					Msg: fmt.Sprintf("%s deleted key %s at %v during its graceful shutdown, but the live record was %s, owned by another party%s", who, op.Key, op.ApplyT, fmtVer(prev), how)})
			}
			if prev != nil {
				ownerChanges++
			}
		}
	}
	v.Nontrivial = len(p.Instances) >= 2 && (ownerChanges >= 2 || overlap > 0)
	v.Classes = append(v.Classes, fmt.Sprintf("owner-changes=%d", min(ownerChanges, 5)))
	if overlap > 0 {
		v.Classes = append(v.Classes, "mutation-while-another-instance-claims")
	}
	if len(p.Groups()) > 1 {
		v.Classes = append(v.Classes, "multi-group")
	}
	sortViols(v.Viols)
	return v
}
