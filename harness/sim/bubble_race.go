//go:build race && goexperiment.synctest

package sim

import (
	"testing"
	"testing/synctest"
)

// runBubble for race-detector builds: synctest.Test ends the calling test
// goroutine (FailNow) as soon as the detector has fired inside the bubble,
// which would stop the exploration at the first (possibly already recorded)
// race. The older synctest.Run (GOEXPERIMENT=synctest) has no such coupling.
func runBubble(t *testing.T, f func()) {
	synctest.Run(f)
}
