package sim

import (
	"fmt"
	"time"
)

// OracleC09: Stop is final, clean and prompt, whenever it is called.
// (Panics, deadlocks and goroutines that outlive every stop end the process
// and are reported by the driver from the plan that was running.)
func OracleC09(tr *Trace) Verdict {
	p := tr.Plan
	v := Verdict{Premise: true}
	claims := tr.Claims()
	owns := map[string][]*Own{}
	startsAfter := func(obj, seq int) int {
		for _, a := range tr.APIs {
			if a.Obj == obj && a.Call == "Start" && a.CallSeq > seq {
				return a.CallSeq
			}
		}
		return 1 << 60
	}
	// a watch the election opened is part of its background activity: every watcher must have been stopped
	// by the library itself once every election is stopped and operations in flight have returned
	// (teardown stops whatever the plan left running and waits 7s before it looks)
	for _, obj := range tr.UnstoppedWatchObjs {
		inst := 0
		for _, a := range tr.APIs {
			if a.Obj == obj {
				inst = a.Inst
			}
		}
		v.Viols = append(v.Viols, Viol{At: tr.End, Sig: "C09 watcher-never-stopped",
			Msg: fmt.Sprintf("%s#%d: a watcher returned to the election by Watch() was never stopped, although the election was stopped and all of its operations had returned", p.Instances[inst].ID, obj)})
		break
	}
	inFlightStops, timerStops := 0, 0
	for _, a := range tr.APIs {
		if a.Call != "Stop" && a.Call != "StopWithContext" {
			continue
		}
		if a.CallT >= tr.End {
			continue
		}
		in := p.Instances[a.Inst]
		who := fmt.Sprintf("%s#%d", in.ID, a.Obj)
		// stop point classification
		for _, op := range tr.Ops {
			if op.Obj == a.Obj && op.IssueSeq < a.CallSeq && (op.ReturnSeq < 0 || op.ReturnSeq > a.CallSeq) {
				inFlightStops++
				phase := "issued-not-applied"
				if op.ApplySeq >= 0 && op.ApplySeq < a.CallSeq {
					phase = "applied-not-answered"
				}
				v.Classes = append(v.Classes, "stop-during-"+op.Kind+"-"+phase)
				break
			}
		}
		if a.Action != nil {
			v.Classes = append(v.Classes, "variant="+a.Call+fmt.Sprintf("{del=%v,wait=%v,timeout=%v,ctx=%s}", a.Action.DeleteKey, a.Action.WaitForDemote, a.Action.Timeout > 0, a.Action.CtxMode))
		}
		// ---- promptness: the call must return
		if a.RetSeq < 0 {
			v.Viols = append(v.Viols, Viol{At: tr.End, Sig: "C09 stop-call-never-returned", Msg: fmt.Sprintf("%s: %s called at %v had not returned when the run ended at %v", who, a.Call, a.CallT, tr.End)})
			continue
		}
		dur := a.RetT - a.CallT
		if a.Call == "Stop" {
			if limit := 5*time.Second + in.DemoteDur; dur > limit {
				v.Viols = append(v.Viols, Viol{At: a.RetT, Sig: "C09 stop-too-slow", Msg: fmt.Sprintf("%s: Stop took %v (limit 5s + OnDemote duration %v)", who, dur, in.DemoteDur)})
			}
		} else if a.Action != nil {
			eff := a.Action.Timeout
			if eff == 0 {
				eff = 5 * time.Second
				if a.Action.CtxMode == "deadline" {
					eff = a.Action.CtxTimeout
				}
			}
			// "within its time-out": the wait for background work, the optional delete of the record and the
			// optional wait for OnDemote share one budget (they used to get the time-out each, and the delete
			// none at all: repaired in the library)
			limit := eff + time.Millisecond
			if dur > limit {
				v.Viols = append(v.Viols, Viol{At: a.RetT, Sig: "C09 stopwithcontext-too-slow", Msg: fmt.Sprintf("%s: StopWithContext(timeout %v) took %v (limit %v)", who, eff, dur, limit)})
			}
		}
		if a.Err == "already stopped" {
			continue
		}
		if a.Err != "" {
			v.Classes = append(v.Classes, "stop-returned-error")
			continue // the property speaks about Stop and a *successful* StopWithContext
		}
		// ---- finality, until the next Start on the same object
		until := startsAfter(a.Obj, a.CallSeq)
		for _, c := range claims {
			if c.Obj == a.Obj && c.FromSeq > a.RetSeq && c.FromSeq < until && c.FromT < tr.End {
				v.Viols = append(v.Viols, Viol{At: c.FromT, Sig: "C09 leader-after-stop", Msg: fmt.Sprintf("%s: %s returned at %v, yet the instance starts reporting leadership at %v", who, a.Call, a.RetT, c.FromT)})
				break
			}
		}
		for _, s := range tr.Snaps {
			if s.Seq <= a.RetSeq || s.Seq >= until || s.T > tr.End {
				continue
			}
			bad := false
			for _, si := range s.Insts {
				if si.Obj == a.Obj && si.IsLeader {
					v.Viols = append(v.Viols, Viol{At: s.T, Sig: "C09 leader-after-stop", Msg: fmt.Sprintf("%s: %s returned at %v, yet IsLeader()==true at %v", who, a.Call, a.RetT, s.T)})
					bad = true
				}
			}
			if bad {
				break
			}
		}
		for _, cb := range tr.CBs {
			if cb.Obj == a.Obj && cb.Kind == "promote-enter" && cb.Seq > a.RetSeq && cb.Seq < until && cb.T < tr.End {
				v.Viols = append(v.Viols, Viol{At: cb.T, Sig: "C09 onpromote-after-stop", Msg: fmt.Sprintf("%s: %s returned at %v, yet OnPromote was invoked at %v", who, a.Call, a.RetT, cb.T)})
				break
			}
		}
		for _, op := range tr.Ops {
			if op.Obj == a.Obj && op.IssueSeq > a.RetSeq && op.IssueSeq < until && op.IssueT < tr.End {
				if op.InStopCtxDelete {
					continue // the look-and-delete of another, concurrent StopWithContext{DeleteKey} call that is still under way
				}
				v.Viols = append(v.Viols, Viol{At: op.IssueT, Sig: "C09 store-operation-issued-after-stop kind=" + op.Kind,
					Msg: fmt.Sprintf("%s: %s returned at %v, yet the instance issued a %s at %v", who, a.Call, a.RetT, op.Kind, op.IssueT)})
				break
			}
		}
		// ---- DeleteKey by the record's owner: the record is gone at return, successor without waiting for expiry
		if a.Call == "StopWithContext" && a.Action != nil && a.Action.DeleteKey && a.WasLeaderAtCall {
			key := in.Group
			if owns[key] == nil {
				owns[key] = tr.Ownership(key)
			}
			var liveAtCall, liveAtRet *Own
			for _, o := range owns[key] {
				if o.Live() && o.FromT <= a.CallT && a.CallT < o.ToT {
					liveAtCall = o
				}
				if o.Live() && o.FromT <= a.RetT && a.RetT < o.ToT {
					liveAtRet = o
				}
			}
			if liveAtCall != nil && liveAtCall.Ver.Actor == in.ID && Contains(liveAtCall.Ver.Value, in.ID, a.TokenAtCall) && !p.instFaulted(a.Inst) {
				v.Classes = append(v.Classes, "deletekey-by-owner")
				if liveAtRet != nil && liveAtRet.Ver.Actor == in.ID {
					sig, how := "C09 deletekey-record-still-live-at-return", ""
					// a distinct case (recorded as a known finding): the record the instance owned WAS deleted, but
					// a Create of an overlapping acquisition round of the same instance, in flight since before the
					// stop call, reached the store after the delete and wrote a new record that nobody refreshes
					if liveAtRet.Op != nil && liveAtRet.Op.Kind == OpCreate && liveAtRet.Op.Obj == a.Obj && liveAtRet.Op.IssueSeq < a.CallSeq && liveAtRet.Ver != liveAtCall.Ver {
						for _, d := range tr.Ops {
							if d.Obj == a.Obj && d.Kind == OpDelete && d.Applied && d.ApplySeq > a.CallSeq && d.ApplySeq < liveAtRet.Op.ApplySeq {
								sig = "C09 deletekey-record-recreated-by-own-in-flight-acquisition"
								how = fmt.Sprintf(" (its delete was applied at %v; the Create issued at %v, before the stop call, was applied at %v)", d.ApplyT, liveAtRet.Op.IssueT, liveAtRet.Op.ApplyT)
							}
						}
					}
					v.Viols = append(v.Viols, Viol{At: a.RetT, Sig: sig,
						Msg: fmt.Sprintf("%s owned the record when StopWithContext{DeleteKey} was called at %v; at its return (%v) its version %s is still live%s", who, a.CallT, a.RetT, fmtVer(liveAtRet.Ver), how)})
				}
			}
		}
	}
	_ = timerStops
	v.Nontrivial = inFlightStops > 0
	sortViols(v.Viols)
	return v
}
