package sim

import (
	"fmt"
	"sort"
	"time"

	"pgregory.net/rapid"
)

// Knobs select which parts of the environment a generated plan may use. Each
// property's check picks the knobs that make its premise and its non-trivial
// shapes frequent.
type Knobs struct {
	MinInst, MaxInst int
	MaxGroups        int
	LatFrac          float64 // per-direction latency < LatFrac*H (0.25 => RTT < H/2)
	WatchDelayH      float64 // watch delivery delay up to this many H
	Faults           bool    // op faults and partition windows
	WatchDrops       bool
	WatchFail        bool
	Takeover         bool
	Stops            bool // stop / restart / graceful shutdown actions
	StopPhases       bool // stops triggered at phases of in-flight operations
	Ext              bool // outside writer
	Conn             bool // connection monitoring + notifications
	Health           bool
	HealthyChecks    bool // checkers that always report healthy (instantly or only at their 100ms deadline)
	Probes           bool
	Promote          bool // blocking promote callbacks
	TakeoverTies     bool // one priority for everybody, takeover enabled for most: nobody may preempt anybody
	DemoteDur        bool
	LongH            bool // allow H >= 2s (heartbeat time-out switches to H/2)
	MinHorizonH      int
	MaxHorizonH      int
	NewObjects       bool
	ExtMax           int  // outside writes per plan (default 4)
	ProbeMax         int  // probes per plan (default 6)
	ProbeAtExt       bool // place probes around outside writes
}

var hChoices = []time.Duration{100 * time.Millisecond, 200 * time.Millisecond, 300 * time.Millisecond, 500 * time.Millisecond, 700 * time.Millisecond, time.Second}

func odd(d time.Duration) time.Duration {
	if d <= 0 {
		return 0
	}
	return d | 1
}

// GenDur draws a duration in [0,max) biased to the edges.
func GenDur(t *rapid.T, max time.Duration, label string) time.Duration {
	if max <= 1 {
		return 0
	}
	switch rapid.IntRange(0, 9).Draw(t, label+"_m") {
	case 0:
		return 0
	case 1:
		return max - 1
	case 2:
		return odd(time.Duration(rapid.Int64Range(0, int64(max/50)+1).Draw(t, label)))
	default:
		return odd(time.Duration(rapid.Int64Range(0, int64(max)-1).Draw(t, label))) % max
	}
}

func GenTiming(t *rapid.T, k Knobs) (time.Duration, time.Duration) {
	hs := hChoices
	if k.LongH {
		hs = append(append([]time.Duration(nil), hChoices...), 2*time.Second, 2500*time.Millisecond, 3*time.Second, 5*time.Second)
	}
	h := rapid.SampledFrom(hs).Draw(t, "H")
	var ttl time.Duration
	switch rapid.IntRange(0, 5).Draw(t, "ttl_ratio") {
	case 0, 1:
		ttl = 3 * h
	case 2:
		ttl = 3*h + 1
	case 3:
		ttl = 4 * h
	case 4:
		ttl = 5 * h
	default:
		ttl = 10 * h
	}
	return h, ttl
}

func genLatList(t *rapid.T, max time.Duration, label string) []time.Duration {
	if max > 1 && rapid.IntRange(0, 7).Draw(t, label+"_edge") == 0 {
		// every operation at the largest admissible latency
		return []time.Duration{max - 1, max - 1}
	}
	n := rapid.IntRange(2, 7).Draw(t, label+"_n")
	out := make([]time.Duration, n)
	for i := range out {
		out[i] = GenDur(t, max, fmt.Sprintf("%s%d", label, i))
	}
	return out
}

// GenPlan draws a complete plan.
func GenPlan(t *rapid.T, profile string, k Knobs) *Plan {
	h, ttl := GenTiming(t, k)
	p := &Plan{Profile: profile, H: h, TTL: ttl}
	minH, maxH := k.MinHorizonH, k.MaxHorizonH
	if minH == 0 {
		minH = 12
	}
	if maxH < minH {
		maxH = minH + 18
	}
	p.Horizon = time.Duration(rapid.IntRange(minH, maxH).Draw(t, "horizonH"))*h + ttl
	p.SnapEvery = odd(h/3 + 7*time.Microsecond)
	p.PlainDelete = rapid.IntRange(0, 3).Draw(t, "plain_delete") == 0
	p.ExpirySlack = rapid.SampledFrom([]time.Duration{0, 0, 0, 50 * time.Millisecond, 250 * time.Millisecond, 300 * time.Millisecond}).Draw(t, "expiry_slack")
	n := rapid.IntRange(max(1, k.MinInst), max(1, k.MaxInst)).Draw(t, "n")
	groups := 1
	if k.MaxGroups > 1 {
		groups = rapid.IntRange(1, k.MaxGroups).Draw(t, "groups")
	}
	latMax := time.Duration(float64(h) * k.LatFrac)
	oddGroups := groups > 1 && rapid.IntRange(0, 3).Draw(t, "odd_group_names") == 0
	tiePrio := 0
	if k.TakeoverTies && rapid.Bool().Draw(t, "takeover_ties") {
		tiePrio = rapid.SampledFrom([]int{1, 5, 100}).Draw(t, "tie_prio")
	}
	for i := 0; i < n; i++ {
		in := Inst{ID: fmt.Sprintf("i%d", i), Group: fmt.Sprintf("g%d", i%groups)}
		if oddGroups {
			// names that differ only in characters a store's key syntax might not like (the library uses the
			// group name as the key, verbatim)
			in.Group = []string{"team a", "team_a", "team:a"}[i%groups]
		}
		in.Lat = genLatList(t, latMax, fmt.Sprintf("lat%d_", i))
		if k.WatchDelayH > 0 && rapid.IntRange(0, 3).Draw(t, "wd_on") > 0 {
			in.WatchDelay = genLatList(t, time.Duration(float64(h)*k.WatchDelayH), fmt.Sprintf("wd%d_", i))
		}
		if k.Takeover {
			in.Priority = rapid.SampledFrom([]int{0, 1, 1, 2, 2, 3, 100}).Draw(t, "prio")
			in.Takeover = in.Priority > 0 && rapid.IntRange(0, 2).Draw(t, "takeover") > 0
		}
		in.CorrID = rapid.Bool().Draw(t, "corr_id")
		if tiePrio > 0 {
			in.Priority, in.Takeover = tiePrio, rapid.IntRange(0, 3).Draw(t, "takeover_tie") > 0
		}
		if k.Conn && rapid.IntRange(0, 3).Draw(t, "monitored") > 0 {
			// (a monitored instance gets no OnDemote duration: the library invokes OnDemote under its
			// disconnect-handler mutex, and a mutex waiter would freeze virtual time - DESIGN.md 5.6)
			in.Monitored = true
			in.Grace = rapid.SampledFrom([]time.Duration{0, 2 * h, 2*h + 1, 5 * h}).Draw(t, "grace")
		}
		if k.Promote {
			in.Promote = rapid.SampledFrom([]int{0, 1, 1, 2}).Draw(t, "promote")
			if in.Promote != 0 {
				in.PromoteLinger = rapid.SampledFrom([]time.Duration{0, 0, 0, time.Millisecond, h / 2, 2 * time.Second, 6 * time.Second}).Draw(t, "promote_linger")
			}
		}
		if k.DemoteDur && !in.Monitored && rapid.IntRange(0, 3).Draw(t, "dd_on") == 0 {
			in.DemoteDur = rapid.SampledFrom([]time.Duration{time.Millisecond, 50 * time.Millisecond, 2 * time.Second}).Draw(t, "demote_dur")
		}
		switch rapid.IntRange(0, 3).Draw(t, "vi") {
		case 0:
			in.VI = h
		case 1:
			in.VI = 3 * h
		}
		if k.Health && rapid.IntRange(0, 2).Draw(t, "health_on") > 0 {
			in.HasHealth = true
			in.MCF = rapid.SampledFrom([]int{0, 1, 2, 3, 5, 1 << 31, 1<<32 + 1}).Draw(t, "mcf")
			in.Health = GenHealthScript(t, in.MCF)
		}
		if k.HealthyChecks && !in.HasHealth && rapid.IntRange(0, 1).Draw(t, "healthy_checker") == 0 {
			// a checker that always answers healthy, sometimes only when its 100ms context expires
			in.HasHealth = true
			in.MCF = rapid.SampledFrom([]int{0, 1, 3}).Draw(t, "mcf_h")
			in.Health = rapid.SliceOfN(rapid.SampledFrom([]int{0, 2, 2}), 0, 60).Draw(t, "healthy_script")
		}
		if k.WatchDrops {
			switch rapid.IntRange(0, 3).Draw(t, "drops") {
			case 0:
				in.DropAll = true
			case 1:
				in.WatchDrop = rapid.SliceOfNDistinct(rapid.IntRange(0, 30), 0, 8, rapid.ID[int]).Draw(t, "drop_set")
			}
		}
		if k.WatchFail {
			in.WatchFail = rapid.SampledFrom([]int{0, 0, 1, 2, 3}).Draw(t, "watch_fail")
			in.WatchFailErr = rapid.SampledFrom([]string{"", "", "auth", "invalid", "bucket"}).Draw(t, "watch_fail_err")
		}
		p.Instances = append(p.Instances, in)
	}
	// dice: extremes over-weighted
	nd := rapid.IntRange(0, 6).Draw(t, "ndice")
	for i := 0; i < nd; i++ {
		p.Dice = append(p.Dice, rapid.SampledFrom([]float64{0, 0, 0.999999, 0.5, 0.25, 0.75, 0.1}).Draw(t, "dice"))
	}

	// ---- timeline ----
	at := func(label string, lo, hi time.Duration) time.Duration {
		if hi <= lo {
			return odd(lo)
		}
		return odd(lo + time.Duration(rapid.Int64Range(0, int64(hi-lo)).Draw(t, label)))
	}
	for i := 0; i < n; i++ {
		var st time.Duration
		switch rapid.IntRange(0, 4).Draw(t, "start_mode") {
		case 0:
			st = time.Duration(i) // all together
		case 1, 2:
			st = at("start_at", 0, 2*h)
		default:
			st = at("start_at", 0, p.Horizon/2)
		}
		p.Timeline = append(p.Timeline, Action{At: st, Kind: ActStart, Inst: i})
		cur := st
		if k.Stops {
			cycles := rapid.SampledFrom([]int{0, 1, 1, 2, 3}).Draw(t, "stop_cycles")
			for c := 0; c < cycles; c++ {
				cur = at("stop_at", cur+1, p.Horizon-1)
				sa := GenStopAction(t, cur, i, h)
				backToBack := false
				if sa.Kind == ActCancelCtx {
					switch rapid.IntRange(0, 2).Draw(t, "cancel_mode") {
					case 0:
						sa.ByDeadline = true
					case 1:
						// cancel(); Start(newCtx) back to back, without waiting for the old run to wind down
						sa.NoWait, backToBack = true, true
						switch rapid.IntRange(0, 2).Draw(t, "then") {
						case 0:
							sa.ThenStart = true
						case 1:
							sa.ThenStop, backToBack = true, false
						}
					}
				}
				p.Timeline = append(p.Timeline, sa)
				if !backToBack && rapid.IntRange(0, 3).Draw(t, "restart") == 0 {
					break
				}
				gapMode := rapid.IntRange(0, 3).Draw(t, "restart_gap")
				if backToBack {
					gapMode = 0
				}
				var gap time.Duration
				switch gapMode {
				case 0:
					gap = 1
				case 1:
					gap = at("gap", 1, h)
				default:
					gap = at("gap", 1, 2*ttl)
				}
				cur += gap
				if cur >= p.Horizon {
					break
				}
				ra := Action{At: cur, Kind: ActStart, Inst: i, NewObject: k.NewObjects && rapid.Bool().Draw(t, "new_object")}
				if !ra.NewObject && !backToBack && sa.Kind != ActCancelCtx && gapMode <= 1 && rapid.Bool().Draw(t, "overlap") {
					// the restart does not wait for the stop call to return (it is issued by another goroutine of the
					// application): with a callback or a store call that takes a while to wind down, the two overlap
					ra.Overlap = true
				}
				p.Timeline = append(p.Timeline, ra)
			}
		}
	}
	if rapid.IntRange(0, 3).Draw(t, "sethandler_on") == 0 {
		// the application registers its callbacks again (new functions) while the election runs
		for j := rapid.IntRange(1, 3).Draw(t, "nsethandler"); j > 0; j-- {
			p.Timeline = append(p.Timeline, Action{At: at("sethandler_at", 0, p.Horizon-1), Kind: ActSetHandler, Inst: rapid.IntRange(0, n-1).Draw(t, "sh_inst")})
		}
	}
	if k.StopPhases {
		np := rapid.IntRange(0, 2).Draw(t, "phase_stops")
		for j := 0; j < np; j++ {
			i := rapid.IntRange(0, n-1).Draw(t, "ps_inst")
			kind := rapid.SampledFrom([]string{OpCreate, OpCreate, OpUpdate, OpGet, OpWatch}).Draw(t, "ps_kind")
			nth := rapid.IntRange(0, 3).Draw(t, "ps_n")
			phase := rapid.SampledFrom([]string{"issued", "applied", "returning"}).Draw(t, "ps_phase")
			act := GenStopAction(t, 0, i, h)
			delay := rapid.SampledFrom([]time.Duration{0, 0, 1}).Draw(t, "ps_delay")
			tr := &Trigger{Phase: phase, Delay: delay, Action: act}
			if rapid.IntRange(0, 1).Draw(t, "ps_follow") == 0 {
				// ... and started again while that operation may still be in flight
				tr.Follow = &Action{Kind: ActStart, Inst: i}
				tr.FollowDelay = rapid.SampledFrom([]time.Duration{1, 1, 1001, latMax / 3, latMax}).Draw(t, "ps_follow_delay")
			}
			p.Instances[i].Rules = append(p.Instances[i].Rules, OpRule{Kind: kind, N: nth, Trigger: tr})
		}
	}
	if k.StopPhases || k.Stops {
		// stops (and restarts) at the library's own log lines, i.e. between any two of its steps
		nl := rapid.SampledFrom([]int{0, 0, 1, 1, 2}).Draw(t, "log_stops")
		for j := 0; j < nl; j++ {
			i := rapid.IntRange(0, n-1).Draw(t, "ls_inst")
			lr := LogRule{Inst: i, Msg: rapid.SampledFrom(LogMessages).Draw(t, "ls_msg"), N: rapid.IntRange(0, 3).Draw(t, "ls_n")}
			if rapid.IntRange(0, 4).Draw(t, "ls_start") == 0 {
				lr.Action = Action{Kind: ActStart, Inst: i}
			} else {
				lr.Action = GenStopAction(t, 0, i, h)
			}
			p.LogRules = append(p.LogRules, lr)
		}
	}
	if rapid.IntRange(0, 2).Draw(t, "yields_on") == 0 {
		p.Yields = rapid.SliceOfN(rapid.SampledFrom([]uint8{0, 0, 1, 1, 2, 3}), 1, 8).Draw(t, "yields")
	}
	for _, a := range p.Timeline {
		if a.Kind == ActCancelCtx && a.NoWait && len(p.Yields) == 0 && rapid.Bool().Draw(t, "yields_for_cancel") {
			// the cancellation wakes the library's own goroutine while the same caller goes on into Stop or
			// Start: whether the two overlap is a matter of where the processor is yielded
			p.Yields = rapid.SliceOfN(rapid.SampledFrom([]uint8{1, 1, 2, 0}), 1, 5).Draw(t, "yields_c")
		}
	}
	if k.Faults {
		nf := rapid.IntRange(0, 4).Draw(t, "nfaults")
		for j := 0; j < nf; j++ {
			i := rapid.IntRange(0, n-1).Draw(t, "f_inst")
			kind := rapid.SampledFrom([]string{OpCreate, OpUpdate, OpUpdate, OpUpdate, OpGet, OpDelete}).Draw(t, "f_kind")
			r := OpRule{Kind: kind, N: rapid.IntRange(0, 8).Draw(t, "f_n"),
				Fault:   rapid.SampledFrom([]string{FaultErr, FaultTimeout, FaultAckLost}).Draw(t, "f_fault"),
				ErrKind: rapid.SampledFrom([]string{ErrKTimeout, ErrKNoResponders, ErrKClosed}).Draw(t, "f_err")}
			p.Instances[i].Rules = append(p.Instances[i].Rules, r)
		}
		nw := rapid.IntRange(0, 2).Draw(t, "nwindows")
		for j := 0; j < nw; j++ {
			from := at("w_from", 0, p.Horizon-1)
			var length time.Duration
			switch rapid.IntRange(0, 2).Draw(t, "w_len") {
			case 0:
				length = at("w_l", 1, 2*h)
			case 1:
				length = at("w_l", ttl, 3*ttl)
			default:
				length = 0
			}
			w := Window{Inst: rapid.IntRange(0, n-1).Draw(t, "w_inst"), From: from, Mode: rapid.SampledFrom([]string{FaultErr, FaultTimeout, FaultAckLost}).Draw(t, "w_mode"),
				ErrKind: rapid.SampledFrom([]string{ErrKTimeout, ErrKNoResponders, ErrKClosed}).Draw(t, "w_err")}
			if length > 0 {
				w.To = from + length
			}
			p.Windows = append(p.Windows, w)
		}
	}
	if k.Ext {
		ne := rapid.IntRange(1, max(4, k.ExtMax)).Draw(t, "next")
		gs := p.Groups()
		for j := 0; j < ne; j++ {
			a := Action{At: at("ext_at", 0, p.Horizon-1), Key: rapid.SampledFrom(gs).Draw(t, "ext_key"), Inst: -1}
			if rapid.IntRange(0, 3).Draw(t, "ext_del") == 0 {
				a.Kind = ActExtDelete
			} else {
				a.Kind = ActExtPut
				a.Value, a.Desc = GenRecordValue(t, p)
			}
			p.Timeline = append(p.Timeline, a)
		}
	}
	if k.Conn {
		for i := range p.Instances {
			if !p.Instances[i].Monitored {
				continue
			}
			nn := rapid.IntRange(0, 6).Draw(t, "nnotif")
			cur := at("n_at", 0, p.Horizon/2)
			for j := 0; j < nn; j++ {
				kind := rapid.SampledFrom([]string{ActDisconnect, ActDisconnect, ActReconnect, ActReconnect, ActClosed}).Draw(t, "n_kind")
				na := Action{At: cur, Kind: kind, Inst: i}
				if rapid.IntRange(0, 4).Draw(t, "n_burst") == 0 {
					na.Then = rapid.SliceOfN(rapid.SampledFrom([]string{ActDisconnect, ActReconnect}), 1, 3).Draw(t, "n_then")
				}
				p.Timeline = append(p.Timeline, na)
				switch rapid.IntRange(0, 5).Draw(t, "n_gap") {
				case 0:
					cur += 1
				case 5:
					// the instant at which the grace timer of this notification (if it armed one) fires
					cur += p.graceOf(i)
				case 1:
					cur += at("n_g", 1, 150*time.Millisecond)
				case 2:
					cur += at("n_g", 1, 2*h)
				default:
					cur += at("n_g", 1, 8*h+6*time.Second)
				}
				if cur >= p.Horizon {
					break
				}
			}
		}
	}
	if k.Probes {
		np := rapid.IntRange(1, max(6, k.ProbeMax)).Draw(t, "nprobes")
		for j := 0; j < np; j++ {
			a := Action{At: at("p_at", 0, p.Horizon-1), Inst: rapid.SampledFrom([]int{-2, -2, rapid.IntRange(0, n-1).Draw(t, "p_inst")}).Draw(t, "p_who"),
				Kind: rapid.SampledFrom([]string{ActProbe, ActProbe, ActProbeDem}).Draw(t, "p_kind")}
			switch rapid.IntRange(0, 5).Draw(t, "p_ctx") {
			case 0:
				a.CtxMode = "cancelled"
			case 1:
				a.CtxMode, a.CtxTimeout = "deadline", at("p_to", 1, h)
			case 2:
				a.CtxMode, a.CtxTimeout = "cancel_after", at("p_to", 1, h)
			}
			p.Timeline = append(p.Timeline, a)
		}
	}
	if k.ProbeAtExt {
		for _, a := range append([]Action(nil), p.Timeline...) {
			if (a.Kind != ActExtPut && a.Kind != ActExtDelete) || rapid.IntRange(0, 2).Draw(t, "pae") == 0 {
				continue
			}
			off := time.Duration(rapid.Int64Range(-int64(latMax)-int64(time.Millisecond), int64(h)).Draw(t, "pae_off"))
			if a.At+off < 0 {
				off = 0
			}
			p.Timeline = append(p.Timeline, Action{At: odd(a.At + off), Inst: rapid.SampledFrom([]int{-2, -2, rapid.IntRange(0, n-1).Draw(t, "pae_inst")}).Draw(t, "pae_who"),
				Kind: rapid.SampledFrom([]string{ActProbe, ActProbe, ActProbeDem}).Draw(t, "pae_kind")})
		}
	}
	sort.SliceStable(p.Timeline, func(i, j int) bool { return p.Timeline[i].At < p.Timeline[j].At })
	return p
}

// GenStopAction draws one of the stop variants.
func GenStopAction(t *rapid.T, at time.Duration, inst int, h time.Duration) Action {
	a := Action{At: at, Inst: inst}
	switch rapid.IntRange(0, 7).Draw(t, "stop_variant") {
	case 0, 1:
		a.Kind = ActStop
		return a
	case 2:
		// the third documented way to stop: cancel the context that was passed to Start
		a.Kind = ActCancelCtx
		return a
	}
	a.Kind = ActStopCtx
	a.DeleteKey = rapid.Bool().Draw(t, "delete_key")
	a.WaitForDemote = rapid.Bool().Draw(t, "wait_for_demote")
	switch rapid.IntRange(0, 4).Draw(t, "stop_timeout") {
	case 0:
		a.Timeout = 0
	case 1:
		a.Timeout = 0
		a.CtxMode, a.CtxTimeout = "deadline", 3*time.Second+1
	case 2:
		a.Timeout = 50*time.Millisecond + 1
	default:
		a.Timeout = 6*time.Second + 1
	}
	return a
}

// GenHealthScript draws a result sequence that over-weights runs of length
// threshold-1, threshold, threshold+1.
func GenHealthScript(t *rapid.T, mcf int) []int {
	th := mcf
	if th <= 0 || th > 16 {
		th = 3 // (thresholds beyond any script: runs as for 3; the threshold itself is never reached)
	}
	var s []int
	blocks := rapid.IntRange(1, 6).Draw(t, "hblocks")
	for b := 0; b < blocks; b++ {
		good := rapid.IntRange(0, 4).Draw(t, "hgood")
		for i := 0; i < good; i++ {
			s = append(s, rapid.SampledFrom([]int{0, 0, 0, 2}).Draw(t, "hg"))
		}
		bad := rapid.SampledFrom([]int{th - 1, th - 1, th, th, th + 1, 1, 2 * th}).Draw(t, "hbad")
		for i := 0; i < bad; i++ {
			s = append(s, rapid.SampledFrom([]int{1, 1, 1, 3}).Draw(t, "hb"))
		}
	}
	return s
}

func sortTimeline(p *Plan) {
	sort.SliceStable(p.Timeline, func(i, j int) bool { return p.Timeline[i].At < p.Timeline[j].At })
}
