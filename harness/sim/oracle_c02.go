package sim

import (
	"fmt"
)

// stopsInFlight counts stop calls that began while a store operation of the
// same election object was in flight.
func (tr *Trace) stopsInFlight() int {
	n := 0
	for _, a := range tr.APIs {
		if a.Call != "Stop" && a.Call != "StopWithContext" {
			continue
		}
		for _, op := range tr.Ops {
			if op.Obj == a.Obj && op.IssueSeq < a.CallSeq && (op.ReturnSeq < 0 || op.ReturnSeq > a.CallSeq) {
				n++
				break
			}
		}
	}
	return n
}

// OracleC02: at most one claimant per group at every flag change, and every
// claim interval is covered, without a gap, by live versions written by the
// claimant that carry the claimant's token.
func OracleC02(tr *Trace) Verdict {
	p := tr.Plan
	v := Verdict{Premise: p.FaultFree() && p.MaxRTT() < p.H/2 && !p.PreemptionPossible()}
	if !v.Premise {
		return v
	}
	claims := tr.Claims()
	sif := tr.stopsInFlight()
	v.Nontrivial = (len(p.Instances) >= 2 && len(claims) >= 2) || sif > 0
	v.Classes = append(v.Classes, fmt.Sprintf("instances=%d", min(len(p.Instances), 4)), fmt.Sprintf("terms=%d", min(len(claims), 4)))
	if sif > 0 {
		v.Classes = append(v.Classes, "stop-inside-store-op")
	}
	// (1) at most one claimant, observed synchronously at every flag change
	for _, e := range tr.Edges {
		if e.T >= tr.End {
			break
		}
		if len(e.Claims) > 1 {
			v.Viols = append(v.Viols, Viol{At: e.T, Sig: "C02 two-claimants",
				Msg: fmt.Sprintf("at %v (flag change of %s#%d) %d election objects of group %s report IsLeader()==true: %v", e.T, tr.ID(e.Inst), e.Obj, len(e.Claims), p.Instances[e.Inst].Group, e.Claims)})
			break
		}
	}
	for _, s := range tr.Snaps {
		if s.T > tr.End {
			break
		}
		cnt := map[string][]int{}
		for _, si := range s.Insts {
			if si.IsLeader {
				g := p.Instances[si.Inst].Group
				cnt[g] = append(cnt[g], si.Obj)
			}
		}
		for g, objs := range cnt {
			if len(objs) > 1 {
				v.Viols = append(v.Viols, Viol{At: s.T, Sig: "C02 two-claimants", Msg: fmt.Sprintf("snapshot at %v: objects %v of group %s all report IsLeader()==true", s.T, objs, g)})
			}
		}
		if len(v.Viols) > 0 {
			break
		}
	}
	// (2) every claim is backed by the record for its whole duration
	owns := map[string][]*Own{}
	for _, c := range claims {
		if c.FromT >= tr.End {
			continue
		}
		id := tr.ID(c.Inst)
		key := p.Instances[c.Inst].Group
		who := fmt.Sprintf("%s#%d", id, c.Obj)
		if c.Up.Live == nil {
			v.Viols = append(v.Viols, Viol{At: c.FromT, Sig: "C02 claim-without-live-record", Msg: fmt.Sprintf("%s starts reporting leadership at %v while no live record exists", who, c.FromT)})
			continue
		}
		if c.Up.Live.Actor != id || !Contains(c.Up.Live.Value, id, c.Token) {
			v.Viols = append(v.Viols, Viol{At: c.FromT, Sig: "C02 claim-not-backed-by-record",
				Msg: fmt.Sprintf("%s starts reporting leadership at %v with token %.8s but the live record is %s", who, c.FromT, c.Token, fmtVer(c.Up.Live))})
			continue
		}
		if owns[key] == nil {
			owns[key] = tr.Ownership(key)
		}
		os := owns[key]
		i := 0
		for i < len(os) && os[i].Ver != c.Up.Live {
			i++
		}
		endT, endSeq := c.ToT, c.ToSeq
		if endSeq < 0 || endT > tr.End {
			endT, endSeq = tr.End, 1<<60
		}
		for ; i < len(os); i++ {
			o := os[i]
			if o.ToT > endT || (o.ToT == endT && (o.Expired || o.ToSeq > endSeq)) || (o.ToSeq < 0 && !o.Expired) {
				break // this version outlives the claim
			}
			if o.Expired {
				if o.ToT < endT {
					v.Viols = append(v.Viols, Viol{At: o.ToT, Sig: "C02 record-lapsed-under-claim",
						Msg: fmt.Sprintf("%s reports leadership during [%v, %v) but its record (rev %d) expired at %v", who, c.FromT, endT, o.Ver.Rev, o.ToT)})
				}
				break
			}
			if i+1 >= len(os) {
				break
			}
			nx := os[i+1]
			if nx.Ver.Tomb || nx.Ver.Actor != id || !Contains(nx.Ver.Value, id, c.Token) {
				v.Viols = append(v.Viols, Viol{At: nx.FromT, Sig: "C02 record-changed-under-claim",
					Msg: fmt.Sprintf("%s reports leadership during [%v, %v) with token %.8s but at %v the record became %s", who, c.FromT, endT, c.Token, nx.FromT, fmtVer(nx.Ver))})
				break
			}
		}
	}
	tr.markPlainDeleteConsequences(&v, "C02")
	return v
}
