package sim

import (
	"fmt"
	"math"
	"time"
)

// OracleC17Rounds: every acquisition round observed in a simulated election
// waits a random 10-100ms before its first attempt and makes at most four
// attempts separated by the computed backoff; no attempt after cancellation.
func OracleC17Rounds(tr *Trace) Verdict {
	v := Verdict{Premise: true}
	hooked := len(tr.Dices) > 0
	type round struct {
		obj, inst int
		gid       uint64
		startSeq  int
		startT    time.Duration
		jitter    time.Duration // from the library's log line (auxiliary)
		dice      []*DiceRec
		ops       []*OpRec
	}
	var rounds []*round
	byGid := map[uint64]*round{}
	for _, l := range tr.Logs {
		if l.Msg == "attempting_acquire_with_retry" && l.T < tr.End {
			r := &round{obj: l.Obj, inst: l.Inst, gid: l.Gid, startSeq: l.Seq, startT: l.T}
			fmt.Sscanf(l.Fields["initial_jitter"], "%d", (*int64)(&r.jitter))
			rounds = append(rounds, r)
			byGid[l.Gid] = r
		}
	}
	for _, d := range tr.Dices {
		if r := byGid[d.Gid]; r != nil {
			r.dice = append(r.dice, d)
		}
	}
	for _, op := range tr.Ops {
		if r := byGid[op.Gid]; r != nil && op.Obj == r.obj {
			r.ops = append(r.ops, op)
		}
	}
	ci := tr.causes()
	multi := 0
	for _, r := range rounds {
		who := fmt.Sprintf("%s#%d", tr.ID(r.inst), r.obj)
		var creates []*OpRec
		for _, op := range r.ops {
			if op.Kind == OpCreate {
				creates = append(creates, op)
			}
		}
		if len(creates) >= 2 {
			multi++
		}
		if len(creates) > 4 {
			v.Viols = append(v.Viols, Viol{At: creates[4].IssueT, Sig: "C17 round-more-than-four-attempts",
				Msg: fmt.Sprintf("%s: the acquisition round that began at %v issued %d Create attempts", who, r.startT, len(creates))})
		}
		// the round's context is cancelled somewhere inside the stop call (for a Start context that ends by
		// deadline: 1ns after the harness records the call; for a stop fired from a log line: once it gets the
		// election mutex), so an attempt counts as "after the cancellation" from the call's return on
		stopSeq := 1 << 60
		if _, st := ci.firstStopAfter(r.obj, r.startSeq); st != nil && st.RetSeq >= 0 {
			stopSeq = st.RetSeq
		}
		for _, c := range creates {
			if c.IssueSeq > stopSeq {
				v.Viols = append(v.Viols, Viol{At: c.IssueT, Sig: "C17 round-attempt-after-cancellation",
					Msg: fmt.Sprintf("%s: the acquisition round that began at %v issued a Create at %v after a stop call had cancelled the election", who, r.startT, c.IssueT)})
				break
			}
		}
		if len(creates) == 0 {
			continue
		}
		// initial jitter: first dice of the round
		wait := creates[0].IssueT - r.startT
		if wait < 10*time.Millisecond || wait > 100*time.Millisecond {
			v.Viols = append(v.Viols, Viol{At: creates[0].IssueT, Sig: "C17 round-initial-wait-outside-10-100ms",
				Msg: fmt.Sprintf("%s: the acquisition round that began at %v made its first attempt after %v (want 10-100ms)", who, r.startT, wait)})
		} else if hooked && len(r.dice) > 0 && r.dice[0].Seq < r.startSeq {
			want := 10*time.Millisecond + time.Duration(r.dice[0].Value*float64(90*time.Millisecond))
			if d := wait - want; d < -2 || d > 2 {
				v.Viols = append(v.Viols, Viol{At: creates[0].IssueT, Sig: "C17 round-initial-wait-differs-from-dice",
					Msg: fmt.Sprintf("%s: the round that began at %v drew %v for its jitter, i.e. %v, but made its first attempt after %v", who, r.startT, r.dice[0].Value, want, wait)})
			}
		}
		// gaps between attempts: previous attempt's end (return of the round's last operation before the next Create) + backoff
		for k := 1; k < len(creates) && k < 4; k++ {
			var prevEnd time.Duration = -1
			for _, op := range r.ops {
				if op.IssueSeq < creates[k].IssueSeq && op.ReturnSeq >= 0 && op.ReturnSeq < creates[k].IssueSeq {
					prevEnd = op.ReturnT
				}
			}
			if prevEnd < 0 {
				continue
			}
			gap := creates[k].IssueT - prevEnd
			base := float64(50*time.Millisecond) * math.Pow(2, float64(k-1))
			if float64(gap) < base*0.9-2 || float64(gap) > base*1.1+2 {
				v.Viols = append(v.Viols, Viol{At: creates[k].IssueT, Sig: "C17 round-backoff-outside-band",
					Msg: fmt.Sprintf("%s: round begun at %v: attempt %d was issued %v after the previous attempt ended; the backoff for retry %d is %v +-10%%", who, r.startT, k+1, gap, k-1, time.Duration(base))})
				continue
			}
			if hooked {
				// the k-th dice of the round after the jitter draw
				idx := -1
				n := 0
				for i, d := range r.dice {
					if d.Seq > r.startSeq {
						n++
						if n == k {
							idx = i
						}
					}
				}
				if idx >= 0 {
					want := time.Duration(base + base*0.1*(2*r.dice[idx].Value-1))
					if d := gap - want; d < -2 || d > 2 {
						v.Viols = append(v.Viols, Viol{At: creates[k].IssueT, Sig: "C17 round-backoff-differs-from-dice",
							Msg: fmt.Sprintf("%s: round begun at %v: gap before attempt %d is %v, backoff computed from dice %v is %v", who, r.startT, k+1, gap, r.dice[idx].Value, want)})
					}
				}
			}
		}
	}
	v.Nontrivial = multi > 0
	v.Classes = append(v.Classes, fmt.Sprintf("sum:rounds=%d", len(rounds)), fmt.Sprintf("sum:rounds-with->=2-attempts=%d", multi))
	sortViols(v.Viols)
	return v
}
