package sim

import (
	"fmt"
	"time"
)

// OracleC10: priority takeover preempts only strictly lower priority (every
// schedule) and does so promptly (fault-free, RTT <= H/10).
func OracleC10(tr *Trace) Verdict {
	p := tr.Plan
	v := Verdict{Premise: true}
	T := p.HeartbeatTimeout()
	claims := tr.Claims()
	// ---- safety: every replacement of another party's live record
	opportunities, ties := 0, 0
	for _, op := range tr.Ops {
		if op.Obj < 0 || !op.Applied || op.Kind != OpUpdate || op.PrevLive == nil || op.ApplyT >= tr.End {
			continue
		}
		in := p.Instances[op.Inst]
		if op.PrevLive.Actor == in.ID {
			continue
		}
		lv, ok := DecodeLib(op.PrevLive.Value)
		stored := 0
		if ok {
			stored = lv.Priority
		}
		v.Classes = append(v.Classes, "preemption")
		if !in.Takeover || in.Priority <= stored {
			v.Viols = append(v.Viols, Viol{At: op.ApplyT, Sig: fmt.Sprintf("C10 preemption-without-strictly-higher-priority takeover=%v", in.Takeover),
				Msg: fmt.Sprintf("%s#%d (priority %d, takeover enabled: %v) replaced the live record %s (stored priority %d) at %v", in.ID, op.Obj, in.Priority, in.Takeover, fmtVer(op.PrevLive), stored, op.ApplyT)})
		}
	}
	for i, a := range p.Instances {
		for j, b := range p.Instances {
			if i < j && a.Group == b.Group && (a.Takeover || b.Takeover) {
				if a.Priority == b.Priority {
					ties++
				} else {
					opportunities++
				}
			}
		}
	}
	v.Nontrivial = opportunities > 0 || ties > 0
	if ties > 0 {
		v.Classes = append(v.Classes, "priority-tie-among-enabled")
	}
	if opportunities > 0 {
		v.Classes = append(v.Classes, "preemption-opportunity")
	}
	// ---- promptness (premise)
	onlyStarts := true
	for _, a := range p.Timeline {
		if a.Kind != ActStart {
			onlyStarts = false
		}
	}
	// timely notifications are part of "fault-free" for this clause: a running follower takes over on the
	// incumbent's next heartbeat event, so watch-delivery delay is bounded like store latency (H/10)
	timely := true
	for _, in := range p.Instances {
		for _, d := range in.WatchDelay {
			if d > p.H/10 {
				timely = false
			}
		}
	}
	// "fault-free conditions" are the conditions of the moment: an instance whose health checks failed for a
	// while (it stepped down, or not) and have been answering healthy again for long enough - every record
	// written under the old conditions has expired, every follower has seen the current one - is running in
	// fault-free conditions again. lastBad: the last unhealthy answer of the run (-1: none).
	var lastBad time.Duration = -1
	for _, hr := range tr.Healths {
		if !hr.Result && hr.T > lastBad {
			lastBad = hr.T
		}
	}
	recoveredAt := time.Duration(0)
	if lastBad >= 0 {
		recoveredAt = lastBad + p.TTL + 3*p.H
		v.Classes = append(v.Classes, "health-checks-failed-earlier-in-the-run")
	}
	if !(p.FaultFreeExceptHealth() && timely && p.MaxRTT() <= p.H/10) {
		v.Classes = append(v.Classes, "promptness-premise-false")
		sortViols(v.Viols)
		return v
	}
	startOf := map[int]time.Duration{}
	for _, a := range tr.APIs {
		if a.Call == "Start" && a.Err == "" {
			if _, ok := startOf[a.Inst]; !ok {
				startOf[a.Inst] = a.RetT
			}
		}
	}
	// running(x, from, to): instance x was started and no stop call on it began in [from, to]
	running := func(x int, from, to time.Duration) bool {
		started := false
		for _, a := range tr.APIs {
			if a.Inst != x {
				continue
			}
			switch a.Call {
			case "Start":
				if a.Err == "" && a.RetT <= from {
					started = true
				}
			case "Stop", "StopWithContext", "CancelStartContext":
				if a.CallT <= to && a.CallT >= 0 {
					if a.CallT >= from {
						return false
					}
					started = false
				}
			}
		}
		return started
	}
	storedPrio := func(c *Claim) int { return p.Instances[c.Inst].Priority }
	for _, c := range claims {
		if c.FromT >= tr.End {
			continue
		}
		for x, in := range p.Instances {
			sx, started := startOf[x]
			if !started || !in.Takeover || in.Group != p.Instances[c.Inst].Group || in.Priority <= storedPrio(c) || x == c.Inst {
				continue
			}
			t := max(c.FromT, sx, recoveredAt)
			if !onlyStarts {
				// with stops and restarts in the plan: x counts from its latest Start before the window, and
				// must be running (no stop call) throughout it
				var latest time.Duration = -1
				for _, a := range tr.APIs {
					if a.Inst == x && a.Call == "Start" && a.Err == "" && (c.ToSeq < 0 || a.RetT < c.ToT) {
						latest = a.RetT
					}
				}
				if latest < 0 {
					continue
				}
				t = max(c.FromT, latest, recoveredAt)
				if !running(x, t, t+3*p.H) {
					continue
				}
				// ... next to a leader that is itself running throughout: when the lower-priority leader is
				// stopped inside the window, who follows is an ordinary succession (C06), not a takeover
				if !running(c.Inst, t, t+3*p.H) {
					v.Classes = append(v.Classes, "promptness-skipped:leader-stopped-inside-the-window")
					continue
				}
			}
			if c.ToSeq >= 0 && c.ToT <= t {
				continue // that term was over before x was there
			}
			if t+3*p.H >= tr.End {
				continue
			}
			// "running next to a lower-priority leader": the live record at t is the one of c's term. A
			// claimant that has already been replaced in the store and has not noticed yet is not the
			// leader x has to take over from (x may then find, for example, the record its own previous
			// run left behind, which only its expiry removes).
			holds := false
			for _, o := range tr.Ownership(in.Group) {
				if o.Live() && o.FromT <= t && o.ToT > t && o.LibOK && o.Lib.ID == p.Instances[c.Inst].ID && o.Lib.Token == c.Token {
					holds = true
				}
			}
			if !holds {
				v.Classes = append(v.Classes, "promptness-skipped:claimant-no-longer-holds-the-record")
				continue
			}
			ok := false
			for _, c2 := range claims {
				if p.Instances[c2.Inst].Group == in.Group && p.Instances[c2.Inst].Priority > storedPrio(c) && p.Instances[c2.Inst].Takeover && c2.FromT <= t+3*p.H && (c2.ToSeq < 0 || c2.ToT > t) {
					ok = true
				}
			}
			if !ok {
				// ... and the lower-priority leader keeps the record for the whole window unless one of the
				// instances that satisfy the clause takes it: a record that went to somebody who does not lead
				// (the takeover write of an instance that was being stopped completed, say) is not a record x
				// is entitled to preempt, and the leader it was running next to is gone
				foreign := false
				for _, o := range tr.Ownership(in.Group) {
					if o.Live() && o.FromT > t && o.FromT <= t+3*p.H && !(o.LibOK && o.Lib.ID == p.Instances[c.Inst].ID && o.Lib.Token == c.Token) {
						foreign = true
					}
				}
				if foreign {
					v.Classes = append(v.Classes, "promptness-skipped:record-went-to-a-non-leader-inside-the-window")
					continue
				}
				v.Viols = append(v.Viols, Viol{At: t + 3*p.H, Sig: "C10 higher-priority-instance-not-leader-within-3H",
					Msg: fmt.Sprintf("%s (priority %d, takeover enabled) runs since %v next to leader %s#%d (priority %d, leading since %v); no strictly higher-priority enabled instance became leader by %v (3 heartbeat intervals)", in.ID, in.Priority, sx, tr.ID(c.Inst), c.Obj, storedPrio(c), c.FromT, t+3*p.H)})
			}
		}
	}
	// the deposed leader is demoted within the C03 clause-1 bound of the replacing write
	for _, op := range tr.Ops {
		if op.Obj < 0 || !op.Applied || op.Kind != OpUpdate || op.PrevLive == nil || op.PrevLive.Actor == p.Instances[op.Inst].ID {
			continue
		}
		if op.ApplyT < recoveredAt {
			continue // a leader whose health checks are failing skips refreshes, and with them the discovery (fault-free conditions only)
		}
		for _, c := range claims {
			if tr.ID(c.Inst) == op.PrevLive.Actor && c.FromSeq < op.ApplySeq && (c.ToSeq < 0 || c.ToSeq > op.ApplySeq) {
				bound := op.ApplyT + p.H + 2*T
				if bound < tr.End && (c.ToSeq < 0 || c.ToT > bound) {
					v.Viols = append(v.Viols, Viol{At: bound, Sig: "C10 deposed-leader-not-demoted-in-time",
						Msg: fmt.Sprintf("%s#%d was preempted at %v but still reports leadership after %v (H + 2T)", tr.ID(c.Inst), c.Obj, op.ApplyT, bound)})
				}
			}
		}
	}
	// leadership then stays with an instance no started enabled instance outranks: no ping-pong
	var lastStart time.Duration
	for _, s := range startOf {
		lastStart = max(lastStart, s)
	}
	settle := max(lastStart, recoveredAt) + 3*p.H + p.H + 2*T + time.Second
	if settle < tr.End && onlyStarts {
		for _, g := range p.Groups() {
			top := 0
			for i, in := range p.Instances {
				if _, ok := startOf[i]; ok && in.Group == g && in.Takeover && in.Priority > top {
					top = in.Priority
				}
			}
			var owner string
			for _, o := range tr.Ownership(g) {
				if o.FromT < settle || o.FromT >= tr.End || !o.Live() {
					if o.Live() && o.ToT > settle {
						owner = o.Ver.Actor
					}
					continue
				}
				if owner != "" && o.Ver.Actor != owner {
					v.Viols = append(v.Viols, Viol{At: o.FromT, Sig: "C10 ownership-ping-pong-after-settling",
						Msg: fmt.Sprintf("group %s: every instance was started by %v and leadership had %v to settle, yet the record changed owner from %s to %s at %v", g, lastStart, settle-lastStart, owner, o.Ver.Actor, o.FromT)})
					break
				}
				owner = o.Ver.Actor
			}
			for _, s := range tr.Snaps {
				if s.T < settle || s.T > tr.End {
					continue
				}
				for _, si := range s.Insts {
					in := p.Instances[si.Inst]
					if in.Group == g && si.IsLeader && in.Priority < top {
						v.Viols = append(v.Viols, Viol{At: s.T, Sig: "C10 outranked-instance-leads-after-settling",
							Msg: fmt.Sprintf("group %s at %v: %s#%d (priority %d) leads although a started takeover-enabled instance has priority %d and leadership had %v to settle", g, s.T, in.ID, si.Obj, in.Priority, top, settle-lastStart)})
					}
				}
				if len(v.Viols) > 0 {
					break
				}
			}
		}
	}
	sortViols(v.Viols)
	return v
}
