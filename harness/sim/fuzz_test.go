package sim

import (
	"fmt"
	"os"
	"testing"
	"time"
)

// FuzzRecord is the coverage-guided part of C04 and C13 (thorough tier): the fuzzer owns the bytes of the
// record and three small integers that select when they are written and when the leader is probed; the
// scenario around them is fixed (a leader, a follower, a takeover-enabled candidate of higher priority that
// starts later). Every execution runs in its own bubble; the oracles of C04, C13, C08 and C18 judge the trace.
func FuzzRecord(f *testing.F) {
	seeds := [][]byte{
		[]byte(`{"id":"L","token":"§T0§"}`), []byte(`{"id":"L","token":"§T0§","priority":5}`), []byte(`{"id":"L","token":"§N0§"}`),
		[]byte(`{"id":"L","token":"x","token":"§T0§"}`), []byte(`{"ID":"L","Token":"§T0§"}`), []byte(`{"token":1}`), []byte(`[]`), []byte(`null`),
		[]byte(`{"id":"T","token":"§T2§","priority":9}`), []byte(`{"id":"phantom","token":"p","priority":1}`), []byte(``), []byte("\xff\xfe"),
		[]byte(`{"id":"L","token":"§E0§"}`), []byte(`{"id":{"a":1},"token":["§T0§"]}`), []byte(`{"id":"L","token":"§T0§"} trailing`),
		[]byte(`{"id":"F","token":"§P1§","priority":-3}`), []byte("\xef\xbb\xbf{}"), []byte(`"§T0§"`), []byte(`{"priority":"high","id":"L","token":"§T0§"}`),
	}
	for i, s := range seeds {
		f.Add(s, uint8(i), uint8(3*i), uint8(i%4))
	}
	known := loadKnownSigs()
	f.Fuzz(func(t *testing.T, data []byte, when, probe, kind uint8) {
		if len(data) > 1<<16 {
			return
		}
		h := 200 * time.Millisecond
		p := &Plan{Profile: "fuzz-record", H: h, TTL: 3 * h, SnapEvery: odd(h/2 + 23*time.Microsecond), Horizon: 14*h + 3*time.Second, Dice: []float64{0.5, 0}}
		p.Instances = []Inst{
			{ID: "L", Group: "g", Lat: []time.Duration{1 * time.Millisecond, 3 * time.Millisecond}, Promote: 1},
			{ID: "F", Group: "g", Lat: []time.Duration{2 * time.Millisecond, 1 * time.Millisecond}},
			{ID: "T", Group: "g", Priority: 2, Takeover: true, Lat: []time.Duration{1 * time.Millisecond, 2 * time.Millisecond}},
		}
		tw := 3*h + time.Duration(when)*(3*h/256) + 1 // somewhere inside three heartbeat intervals of a settled leader
		p.Timeline = []Action{{At: 1, Kind: ActStart, Inst: 0}, {At: odd(h / 2), Kind: ActStart, Inst: 1}}
		switch kind % 4 {
		case 0, 1:
			p.Timeline = append(p.Timeline, Action{At: odd(tw), Kind: ActExtPut, Inst: -1, Key: "g", Value: data, Desc: "fuzz"})
		case 2:
			p.Timeline = append(p.Timeline, Action{At: odd(tw), Kind: ActExtDelete, Inst: -1, Key: "g"}, Action{At: odd(tw + time.Duration(probe)*time.Millisecond), Kind: ActExtPut, Inst: -1, Key: "g", Value: data})
		case 3:
			p.Timeline = append(p.Timeline, Action{At: odd(tw), Kind: ActExtPut, Inst: -1, Key: "g", Value: data}, Action{At: odd(tw + h + time.Duration(probe)*time.Millisecond), Kind: ActExtPut, Inst: -1, Key: "g", Value: data})
		}
		p.Timeline = append(p.Timeline,
			Action{At: odd(tw - 2*time.Millisecond + time.Duration(probe%8)*time.Millisecond), Kind: ActProbe, Inst: 0},
			Action{At: odd(tw + time.Duration(probe)*2*time.Millisecond), Kind: ActProbeDem, Inst: -2},
			Action{At: odd(tw + 2*h), Kind: ActStart, Inst: 2},
			Action{At: odd(tw + 5*h), Kind: ActProbe, Inst: -2})
		sortTimeline(p)
		writeCurrent(p)
		tr := Run(t, p)
		if tr.HarnessErr != "" {
			t.Fatalf("harness: %s", tr.HarnessErr)
		}
		if os.Getenv("VERIF_FUZZ_DEBUG") != "" {
			fmt.Println(tr.Timeline(0, 0, true))
		}
		for name, o := range map[string]Oracle{"C04": OracleC04, "C13": OracleC13, "C08": OracleC08, "C18": OracleC18} {
			for _, x := range o(tr).Viols {
				if known[x.Sig] {
					continue
				}
				t.Fatalf("%s %s: %s\nplan: %s", name, x.Sig, x.Msg, p.JSON())
			}
		}
	})
}

func loadKnownSigs() map[string]bool {
	m := map[string]bool{}
	path := os.Getenv("VERIF_KNOWN")
	if path == "" {
		path = "/verif/known_findings.json"
	}
	b, err := os.ReadFile(path)
	if err != nil {
		return m
	}
	for _, k := range parseKnown(b) {
		m[k] = true
	}
	return m
}

func parseKnown(b []byte) []string {
	var ks []struct {
		Status, Signature string
	}
	if err := jsonUnmarshal(b, &ks); err != nil {
		return nil
	}
	var out []string
	for _, k := range ks {
		if k.Status == "known" {
			out = append(out, k.Signature)
		}
	}
	return out
}

var _ = fmt.Sprintf
