package sim

import (
	"encoding/json"
	"fmt"
	"time"
)

var validStates = map[string]bool{"INIT": true, "CANDIDATE": true, "LEADER": true, "FOLLOWER": true, "DEMOTED": true, "STOPPED": true}

// OracleC18: Status() snapshots and metrics are coherent with the logs.
func OracleC18(tr *Trace) Verdict {
	p := tr.Plan
	v := Verdict{Premise: true}
	T := p.HeartbeatTimeout()
	claims := tr.Claims()
	claimOf := func(obj, seq int) *Claim {
		for _, c := range claims {
			if c.Obj == obj && c.FromSeq < seq && (c.ToSeq < 0 || c.ToSeq > seq) {
				return c
			}
		}
		return nil
	}
	writes := map[int][]*OpRec{}
	for _, op := range tr.Ops {
		if op.Obj >= 0 && (op.Kind == OpCreate || op.Kind == OpUpdate) && op.Applied && op.Err == "" && op.ReturnSeq >= 0 {
			writes[op.Obj] = append(writes[op.Obj], op)
		}
	}
	inflightSnap := false
	reported := map[string]bool{}
	add := func(at Viol) {
		if !reported[at.Sig] {
			reported[at.Sig] = true
			v.Viols = append(v.Viols, at)
		}
	}
	for _, s := range tr.Snaps {
		if s.T > tr.End {
			break
		}
		for _, si := range s.Insts {
			who := fmt.Sprintf("%s#%d", tr.ID(si.Inst), si.Obj)
			if si.OpsInFlight > 0 {
				inflightSnap = true
			}
			if !validStates[si.State] {
				add(Viol{At: s.T, Sig: "C18 undocumented-state", Msg: fmt.Sprintf("%s at %v: Status().State=%q", who, s.T, si.State)})
			}
			if si.StIsLeader != (si.State == "LEADER") {
				add(Viol{At: s.T, Sig: fmt.Sprintf("C18 isleader-state-mismatch state=%s isleader=%v", si.State, si.StIsLeader),
					Msg: fmt.Sprintf("%s at %v: Status() has IsLeader=%v but State=%s", who, s.T, si.StIsLeader, si.State)})
			}
			if si.StIsLeader != si.IsLeader {
				add(Viol{At: s.T, Sig: "C18 status-isleader-differs-from-IsLeader", Msg: fmt.Sprintf("%s at %v (quiescent): Status().IsLeader=%v, IsLeader()=%v", who, s.T, si.StIsLeader, si.IsLeader)})
			}
			if si.Stopped && si.ByCancel && !si.InStop && !si.Started && si.IsLeader {
				add(Viol{At: s.T, Sig: "C18 leader-after-context-cancellation",
					Msg: fmt.Sprintf("%s#%d at %v: still IsLeader()==true although the context passed to Start was cancelled and the shutdown it implies is complete", tr.ID(si.Inst), si.Obj, s.T)})
			}
			if si.Stopped && !si.ByCancel && !si.InStop && !si.Started && (si.State != "STOPPED" || si.IsLeader) {
				add(Viol{At: s.T, Sig: "C18 not-stopped-after-stop", Msg: fmt.Sprintf("%s at %v: a stop call returned nil, yet State=%s IsLeader=%v", who, s.T, si.State, si.IsLeader)})
			}
			if si.GaugeSet && !si.InStop && (si.Gauge == 1) != si.IsLeader {
				add(Viol{At: s.T, Sig: "C18 gauge-differs-from-IsLeader", Msg: fmt.Sprintf("%s at %v (quiescent): is_leader gauge=%v, IsLeader()=%v", who, s.T, si.Gauge, si.IsLeader)})
			}
			if si.StIsLeader && si.IsLeader {
				if si.StLeaderID != tr.ID(si.Inst) {
					add(Viol{At: s.T, Sig: "C18 leader-shows-foreign-leaderid", Msg: fmt.Sprintf("%s at %v leads but Status().LeaderID=%q", who, s.T, si.StLeaderID)})
				}
				if c := claimOf(si.Obj, s.Seq); c != nil {
					if si.StToken != c.Token {
						add(Viol{At: s.T, Sig: "C18 leader-shows-wrong-token", Msg: fmt.Sprintf("%s at %v leads the term of token %.8s but Status().Token=%.8s", who, s.T, c.Token, si.StToken)})
					}
					// revision of the latest successful write whose answer reached the library:
					// heartbeat answers later than the heartbeat time-out are discarded by the library.
					var latest *OpRec
					okRev := map[uint64]bool{}
					for _, w := range writes[si.Obj] {
						if w.ReturnSeq > s.Seq {
							continue
						}
						// only writes of this very term count: those that carry the term's token (an answer that
						// arrives late can found a term on a record that has been replaced since - also by another
						// record of the same instance - and that term's "latest successful write" is its own)
						lv, ok := DecodeLib(w.Payload)
						if !ok || lv.Token != c.Token || w.Ver == nil {
							continue
						}
						if latest == nil {
							// the founding write (Create, or the Update of a takeover)
							latest = w
							okRev = map[uint64]bool{}
							continue
						}
						if w.Kind != OpUpdate || w.IssueSeq < c.FromSeq {
							continue
						}
						switch rtt := w.ReturnT - w.IssueT; {
						case rtt < T:
							latest = w
							okRev = map[uint64]bool{}
						case rtt == T:
							okRev[w.Ver.Rev] = true // exact tie with the time-out: either outcome
						}
					}
					if latest != nil && tr.StalledAt(si.Inst, PointHeartbeatAns, s.T) {
						// the heartbeat goroutine is being held between receiving the answer and recording it
						latest = nil
					}
					if latest != nil {
						okRev[latest.Ver.Rev] = true
						if !okRev[si.Revision] {
							add(Viol{At: s.T, Sig: "C18 leader-shows-stale-or-foreign-revision",
								Msg: fmt.Sprintf("%s at %v leads; its latest successful write that was answered in time is rev %d (%s answered at %v) but Status().Revision=%d", who, s.T, latest.Ver.Rev, latest.Kind, latest.ReturnT, si.Revision)})
						}
					}
				}
			}
		}
	}
	// follower convergence: a started follower converges to the id in the live record - also one that has
	// never known a leader (its Watch() calls failed, or no event reached it). Watch events may be lost (the 500ms periodic check is the fallback); the instance itself must be
	// able to reach the store. W = two periodic checks + the largest watch delay + two round trips.
	{
		var maxWD time.Duration
		for _, in := range p.Instances {
			for _, d := range in.WatchDelay {
				maxWD = max(maxWD, d)
			}
		}
		W := time.Second + maxWD + 2*p.MaxRTT() + time.Millisecond
		knew := map[int]bool{}
		ownsCache := map[string][]*Own{}
		for _, s := range tr.Snaps {
			if s.T > tr.End {
				break
			}
			for _, si := range s.Insts {
				if si.LeaderID != "" {
					knew[si.Obj] = true
				}
				if !si.Started || si.InStop || si.IsLeader || p.instFaulted(si.Inst) {
					continue
				}
				// The watch loop takes one thing at a time, choosing at random between a pending periodic check
				// and a pending event. When a store round trip is not well below the 500ms check interval a
				// check is nearly always pending, an event can wait behind an unbounded number of them, and each
				// stale event sets the id back until the next check: no bound to judge against.
				if p.InstMaxRTT(si.Inst) > 200*time.Millisecond {
					continue
				}
				key := p.Instances[si.Inst].Group
				if ownsCache[key] == nil {
					ownsCache[key] = tr.Ownership(key)
				}
				// the live record has named the same id, decodably, for at least W, and the follower has been
				// started (and not leader) for at least W
				// who the record has named over time: segments (from, id), id "" = vacant or undecodable
				var since time.Duration = -1
				id := ""
				setName := func(at time.Duration, name string) {
					if name != id || since < 0 {
						since, id = at, name
					}
				}
				for _, o := range ownsCache[key] {
					if o.FromT > s.T {
						break
					}
					name := ""
					if lv, ok := DecodeLib(o.Ver.Value); o.Live() && ok {
						name = lv.ID
						// (an outside party's record whose id sits under a key that is not exactly "id" - "ID", "Id" -
						// names a leader for the library's struct decoding (watch events) and none for its map
						// decoding (periodic check): "the id in the live record" is not defined for it)
						var m map[string]interface{}
						if json.Unmarshal(o.Ver.Value, &m) == nil {
							if exact, _ := m["id"].(string); exact != name {
								name = ""
							}
						}
					}
					setName(o.FromT, name)
					if o.Expired && o.ToT <= s.T {
						setName(o.ToT, "")
					}
				}
				if id == "" {
					continue
				}
				if since < 0 || s.T-since < W {
					continue
				}
				// The watch loop handles one thing at a time: every event that was still on its way when the
				// record settled may be preceded by a periodic check (one store round trip each), and a stale
				// event sets the leader id back until the next check. With a slow store the backlog drains
				// accordingly more slowly.
				backlog := 0
				for _, w := range tr.WatchEvs {
					if w.Obj == si.Obj && !w.Dropped && w.T >= since-maxWD && w.T <= s.T {
						backlog++
					}
				}
				if s.T-since < W+time.Duration(backlog)*(p.MaxRTT()+time.Millisecond) {
					continue
				}
				followerSince := time.Duration(-1)
				for _, a := range tr.APIs {
					if a.Obj == si.Obj && a.Call == "Start" && a.Err == "" && a.RetT <= s.T {
						followerSince = a.RetT
					}
				}
				for _, c := range claims {
					if c.Obj == si.Obj && c.ToSeq >= 0 && c.ToT <= s.T && c.ToT > followerSince {
						followerSince = c.ToT
					}
				}
				if followerSince < 0 || s.T-followerSince < W {
					continue
				}
				v.Classes = append(v.Classes, "follower-convergence-judged")
				if si.StLeaderID != id {
					add(Viol{At: s.T, Sig: "C18 follower-leaderid-not-converged",
						Msg: fmt.Sprintf("%s#%d at %v: a follower since %v that can reach the store; the live record has named %q since %v, yet Status().LeaderID=%q (bound %v)", tr.ID(si.Inst), si.Obj, s.T, followerSince, id, since, si.StLeaderID, W)})
				}
			}
		}
	}
	// transition chain per object
	lastTo := map[int]string{}
	lastSeq := map[int]int{}
	count := map[int]int{}
	startRet := map[int][]int{}
	for _, a := range tr.APIs {
		if a.Call == "Start" && a.Err == "" && a.RetSeq >= 0 {
			// (the point from which the state is CANDIDATE is the call's return: before that the call may still be
			// shutting down a previous run whose context was cancelled, recording that run's last transition)
			startRet[a.Obj] = append(startRet[a.Obj], a.RetSeq)
		}
	}
	for _, m := range tr.Mets {
		if m.Kind != "transition" || m.T > tr.End {
			continue
		}
		count[m.Obj]++
		prev, had := lastTo[m.Obj]
		startedBetween := false
		for _, sq := range startRet[m.Obj] {
			if sq > lastSeq[m.Obj] && sq < m.Seq {
				startedBetween = true
			}
		}
		okc := (had && m.From == prev && !startedBetween) || (startedBetween && m.From == "CANDIDATE") || (had && startedBetween && m.From == prev && false)
		if !okc {
			add(Viol{At: m.T, Sig: fmt.Sprintf("C18 transition-chain-broken %s->%s after %s", m.From, m.To, prev),
				Msg: fmt.Sprintf("%s#%d at %v: recorded transition %s -> %s, but the previous recorded transition ended in %q (Start in between: %v)", tr.ID(m.Inst), m.Obj, m.T, m.From, m.To, prev, startedBetween)})
		}
		lastTo[m.Obj] = m.To
		lastSeq[m.Obj] = m.Seq
	}
	maxTr := 0
	for _, n := range count {
		maxTr = max(maxTr, n)
	}
	v.Nontrivial = maxTr >= 3 && inflightSnap
	v.Classes = append(v.Classes, fmt.Sprintf("max-transitions=%d", min(maxTr, 6)))
	sortViols(v.Viols)
	return v
}
