package sim

import (
	"fmt"
	"time"
)

// OracleC12: reference consecutive-failure counter fed with the scripted
// checker's own call log.
func OracleC12(tr *Trace) Verdict {
	p := tr.Plan
	v := Verdict{Premise: true}
	ci := tr.causes()
	claims := tr.Claims()
	byObj := map[int][]*HealthRec{}
	for _, h := range tr.Healths {
		byObj[h.Obj] = append(byObj[h.Obj], h)
	}
	anyUnhealthy, exactMinus1, multiTerm := false, false, 0
	for obj, hs := range byObj {
		inst := hs[0].Inst
		spec := p.Instances[inst]
		who := fmt.Sprintf("%s#%d", spec.ID, obj)
		th := spec.MCF
		if th <= 0 {
			th = 3
		}
		var myClaims []*Claim
		for _, c := range claims {
			if c.Obj == obj {
				myClaims = append(myClaims, c)
			}
		}
		claimAt := func(seq int) *Claim {
			for _, c := range myClaims {
				if c.FromSeq < seq && (c.ToSeq < 0 || c.ToSeq > seq) {
					return c
				}
			}
			return nil
		}
		termsWithUnhealthy := map[*Claim]bool{}
		var curTerm *Claim
		n := 0
		for i, h := range hs {
			if h.T >= tr.End {
				break
			}
			if h.Deadline < 0 || h.Deadline > 100*time.Millisecond {
				v.Viols = append(v.Viols, Viol{At: h.T, Sig: "C12 health-check-context-deadline",
					Msg: fmt.Sprintf("%s: health check #%d at %v received a context with deadline %v (want: within 100ms)", who, h.N, h.T, h.Deadline)})
			}
			c := claimAt(h.Seq)
			if c == nil {
				// check made while not leading (the loop is about to notice): not part of any term's count
				continue
			}
			if c != curTerm {
				curTerm, n = c, 0
			} else if i > 0 && claimAt(hs[i-1].Seq) == c && hs[i-1].Gid != h.Gid {
				v.Viols = append(v.Viols, Viol{At: h.T, Sig: "C12 two-heartbeat-loops-in-one-term",
					Msg: fmt.Sprintf("%s: health checks #%d and #%d of the term that began at %v come from two different heartbeat loops (goroutines %d and %d)", who, hs[i-1].N, h.N, c.FromT, hs[i-1].Gid, h.Gid)})
			}
			nextSeq := 1 << 60
			if i+1 < len(hs) {
				nextSeq = hs[i+1].Seq
			}
			if h.Result {
				if n == th-1 && n > 0 {
					exactMinus1 = true
				}
				n = 0
				continue
			}
			anyUnhealthy = true
			termsWithUnhealthy[c] = true
			n++
			// an unhealthy tick must not refresh the record
			for _, op := range tr.Ops {
				if op.Obj == obj && op.Kind == OpUpdate && op.IssueSeq > h.Seq && op.IssueSeq < nextSeq && (c.ToSeq < 0 || op.IssueSeq < c.ToSeq) {
					v.Viols = append(v.Viols, Viol{At: op.IssueT, Sig: "C12 refresh-on-unhealthy-tick",
						Msg: fmt.Sprintf("%s: health check #%d at %v reported unhealthy but a heartbeat Update was issued at %v", who, h.N, h.T, op.IssueT)})
					break
				}
			}
			downHere := c.ToSeq >= 0 && c.ToSeq > h.Seq && c.ToSeq < nextSeq
			cause := ""
			if downHere {
				cause = ci.CauseOf(c.Down)
			}
			if n >= th {
				// the threshold is reached on this tick: the health mechanism must demote now, unless
				// something else ended the term first or a stop call is in progress / the run ends
				stopSeq, _ := ci.firstStopAfter(obj, c.FromSeq)
				endedOtherwise := c.ToSeq >= 0 && c.ToSeq < nextSeq && cause != CauseHealth
				if !(downHere && cause == CauseHealth) && !endedOtherwise && stopSeq > nextSeq && nextSeq < 1<<60 {
					v.Viols = append(v.Viols, Viol{At: h.T, Sig: "C12 no-demotion-at-threshold",
						Msg: fmt.Sprintf("%s: %d consecutive unhealthy results in the term that began at %v (threshold %d, reached by check #%d at %v) but the health mechanism did not demote it", who, n, c.FromT, th, h.N, h.T)})
				}
				if downHere && cause == CauseHealth {
					// OnDemote must follow
					ok := false
					for _, cb := range tr.CBs {
						if cb.Obj == obj && cb.Kind == "demote-enter" && cb.Seq > c.ToSeq && cb.Seq < nextSeq {
							ok = true
						}
					}
					if !ok {
						v.Viols = append(v.Viols, Viol{At: c.ToT, Sig: "C12 health-demotion-without-ondemote", Msg: fmt.Sprintf("%s: demoted by the health mechanism at %v but OnDemote was not invoked", who, c.ToT)})
					}
				}
				n = 0
				continue
			}
			if downHere && cause == CauseHealth {
				v.Viols = append(v.Viols, Viol{At: c.ToT, Sig: fmt.Sprintf("C12 health-demotion-below-threshold after=%d threshold=%d", n, th),
					Msg: fmt.Sprintf("%s: demoted by the health mechanism at %v after only %d consecutive unhealthy result(s) in the term that began at %v (threshold %d)", who, c.ToT, n, c.FromT, th)})
			}
		}
		// term by term: a term that the health mechanism ended must itself have seen the threshold - the
		// unhealthy results that immediately precede its end, counted among the checks that began in that
		// very term (a check begun in the previous term and answered in this one is not a tick of this term)
		for _, c := range myClaims {
			if c.ToSeq < 0 || c.ToT >= tr.End || ci.CauseOf(c.Down) != CauseHealth {
				continue
			}
			run := 0
			for _, h := range hs {
				if h.Seq > c.ToSeq {
					break
				}
				if claimAt(h.Seq) != c {
					continue
				}
				if h.Result {
					run = 0
				} else {
					run++
				}
			}
			if run < th {
				v.Viols = append(v.Viols, Viol{At: c.ToT, Sig: fmt.Sprintf("C12 health-demotion-below-threshold after=%d threshold=%d", run, th),
					Msg: fmt.Sprintf("%s: the term that began at %v was ended by the health mechanism at %v although only %d consecutive unhealthy result(s) of checks begun in that term precede it (threshold %d)", who, c.FromT, c.ToT, run, th)})
			}
		}
		if len(termsWithUnhealthy) >= 2 {
			multiTerm++
		}
		// after a health demotion the instance continues as a follower
		for _, c := range myClaims {
			if c.ToSeq < 0 || c.ToT >= tr.End || ci.CauseOf(c.Down) != CauseHealth {
				continue
			}
			for _, s := range tr.Snaps {
				if s.Seq < c.ToSeq {
					continue
				}
				for _, si := range s.Insts {
					if si.Obj == obj && !si.InStop && !si.Stopped && !si.IsLeader && si.State != "FOLLOWER" && si.Started {
						v.Viols = append(v.Viols, Viol{At: s.T, Sig: "C12 not-follower-after-health-demotion", Msg: fmt.Sprintf("%s: state %s at %v after the health demotion at %v", who, si.State, s.T, c.ToT)})
					}
				}
				break
			}
		}
	}
	v.Nontrivial = anyUnhealthy
	if anyUnhealthy {
		v.Classes = append(v.Classes, "some-unhealthy-result")
	}
	if exactMinus1 {
		v.Classes = append(v.Classes, "run-of-threshold-minus-1-then-healthy")
	}
	if multiTerm > 0 {
		v.Classes = append(v.Classes, "unhealthy-results-in->=2-terms-of-one-object")
	}
	// re-election of a sole candidate after a health demotion (C06 bound from the record's lapse)
	if len(p.Instances) == 1 && p.FaultFreeExceptHealth() {
		B := 600*time.Millisecond + 4*p.MaxRTT()
		own := tr.Ownership(p.Instances[0].Group)
		for _, c := range claims {
			if c.ToSeq < 0 || ci.CauseOf(c.Down) != CauseHealth {
				continue
			}
			// the record lapses TTL after its last write
			var lapse time.Duration = -1
			for _, o := range own {
				if o.FromT <= c.ToT && o.Expired {
					lapse = o.ToT
				}
			}
			if lapse < 0 {
				continue
			}
			if lapse < c.ToT {
				lapse = c.ToT // the record was already gone: the clock starts at the demotion
			}
			if lapse+B >= tr.End {
				continue
			}
			stopSeq, stopAPI := ci.firstStopAfter(c.Obj, c.ToSeq)
			_ = stopSeq
			if stopAPI != nil && stopAPI.CallT < lapse+B {
				continue
			}
			ok := false
			for _, c2 := range claims {
				if c2.FromT > c.ToT && c2.FromT <= lapse+B {
					ok = true
				}
			}
			if !ok {
				v.Viols = append(v.Viols, Viol{At: lapse + B, Sig: "C12 not-re-elected-after-health-demotion",
					Msg: fmt.Sprintf("%s was demoted by the health mechanism at %v; the record was vacant from %v, it is the only candidate, yet it did not lead again by %v", tr.ID(c.Inst), c.ToT, lapse, lapse+B)})
			}
		}
	}
	sortViols(v.Viols)
	return v
}

// FaultFreeExceptHealth: like FaultFree but health scripts may report anything.
func (p *Plan) FaultFreeExceptHealth() bool {
	q := *p
	q.Instances = append([]Inst(nil), p.Instances...)
	for i := range q.Instances {
		q.Instances[i].Health = nil
	}
	return q.FaultFree()
}
