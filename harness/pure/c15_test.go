package pure

import (
	"context"
	"errors"
	"fmt"
	"strings"
	"testing"
	"time"

	"github.com/ali-assar/NATS-Leader-Election/leader"
	"github.com/nats-io/nats.go"
	"pgregory.net/rapid"

	"verif/harness/refkv"
	"verif/harness/report"
)

// An error tree as data (replayable): a leaf plus a list of wrappers applied inside-out.
type errSpec struct {
	Leaf  string   `json:"leaf"`
	Text  string   `json:"text,omitempty"`
	Num   int      `json:"num,omitempty"`
	Wraps []string `json:"wraps,omitempty"` // "fmt:<text>" | "election" | "tokval" | "timeouterr" | "validation" | "join:<text>"
}

const (
	clsAny = iota
	clsTransient
	clsPermanent
)

type leafDef struct {
	name  string
	class int
	mk    func(s errSpec) error
}

var leaves = []leafDef{
	// library sentinels
	{"ErrNotLeader", clsAny, func(errSpec) error { return leader.ErrNotLeader }},
	{"ErrAlreadyStarted", clsAny, func(errSpec) error { return leader.ErrAlreadyStarted }},
	{"ErrAlreadyStopped", clsAny, func(errSpec) error { return leader.ErrAlreadyStopped }},
	{"ErrElectionFailed", clsAny, func(errSpec) error { return leader.ErrElectionFailed }},
	{"ErrHeartbeatFailed", clsAny, func(errSpec) error { return leader.ErrHeartbeatFailed }},
	{"ErrTokenValidationFailed", clsAny, func(errSpec) error { return leader.ErrTokenValidationFailed }},
	{"ErrConnectionLost", clsAny, func(errSpec) error { return leader.ErrConnectionLost }},
	{"ErrTokenInvalid", clsAny, func(errSpec) error { return leader.ErrTokenInvalid }},
	{"ErrTokenMismatch", clsAny, func(errSpec) error { return leader.ErrTokenMismatch }},
	{"ErrInvalidConfig", clsPermanent, func(errSpec) error { return leader.ErrInvalidConfig }},
	{"ErrBucketNotFound", clsPermanent, func(errSpec) error { return leader.ErrBucketNotFound }},
	{"ErrPermissionDenied", clsPermanent, func(errSpec) error { return leader.ErrPermissionDenied }},
	{"ValidationError", clsPermanent, func(s errSpec) error { return leader.NewValidationError("TTL", s.Num, s.Text) }},
	{"TimeoutError", clsTransient, func(s errSpec) error { return leader.NewTimeoutError(s.Text, time.Duration(s.Num), nil) }},
	// context
	{"context.Canceled", clsTransient, func(errSpec) error { return context.Canceled }},
	{"context.DeadlineExceeded", clsTransient, func(errSpec) error { return context.DeadlineExceeded }},
	// NATS client
	{"nats.ErrTimeout", clsTransient, func(errSpec) error { return nats.ErrTimeout }},
	{"nats.ErrNoResponders", clsTransient, func(errSpec) error { return nats.ErrNoResponders }},
	{"nats.ErrConnectionClosed", clsTransient, func(errSpec) error { return nats.ErrConnectionClosed }},
	{"nats.ErrBucketNotFound", clsPermanent, func(errSpec) error { return nats.ErrBucketNotFound }},
	{"nats.ErrKeyExists", clsPermanent, func(errSpec) error { return nats.ErrKeyExists }},
	{"nats conflict (Update, stale revision)", clsPermanent, func(s errSpec) error { return refkv.ConflictError(uint64(s.Num)) }},
	{"nats key exists (Create on existing key)", clsPermanent, func(s errSpec) error { return refkv.KeyExistsError(uint64(s.Num)) }},
	// nats-server >= 2.12 on a replicated bucket: a revision-checked write that meets another one still being
	// replicated is refused with err_code 10164 "wrong last sequence" (no sequence number; kv.Create passes it on raw)
	{"nats conflict (in-flight write, err_code 10164)", clsPermanent, func(errSpec) error {
		return &nats.APIError{Code: 400, ErrorCode: 10164, Description: "wrong last sequence"}
	}},
	{"nats.ErrKeyNotFound", clsAny, func(errSpec) error { return nats.ErrKeyNotFound }},
	{"nats.ErrKeyDeleted", clsAny, func(errSpec) error { return nats.ErrKeyDeleted }},
	{"nats.ErrNoStreamResponse", clsAny, func(errSpec) error { return nats.ErrNoStreamResponse }},
	{"nats.ErrAuthorization", clsAny, func(errSpec) error { return nats.ErrAuthorization }},
	{"nats.ErrPermissionViolation", clsAny, func(errSpec) error { return nats.ErrPermissionViolation }},
	{"nats.ErrInvalidKey", clsAny, func(errSpec) error { return nats.ErrInvalidKey }},
	{"nats.ErrSlowConsumer", clsAny, func(errSpec) error { return nats.ErrSlowConsumer }},
	{"nats.APIError(other code)", clsAny, func(s errSpec) error {
		code := s.Num
		if code == int(nats.JSErrCodeStreamWrongLastSequence) {
			code++
		}
		return &nats.APIError{Code: 400, ErrorCode: nats.ErrorCode(code), Description: s.Text}
	}},
	// arbitrary text
	{"errors.New(text)", clsAny, func(s errSpec) error { return errors.New(s.Text) }},
}

var patternWords = []string{"revision mismatch", "key not found", "permission denied", "bucket not found", "access denied", "invalid", "authentication",
	"wrong last sequence", "key exists", "timeout", "deadline exceeded", "connection lost", "connection refused", "temporary", "unavailable", "network",
	"i/o timeout", "connection reset", "INVALID", "Permission Denied", "Timeout", "max attempts (3) exceeded", ""}

// words the library documents as markers of permanent errors (error.go)
var permanentWords = []string{"revision mismatch", "key not found", "permission denied", "bucket not found", "access denied", "invalid", "authentication", "wrong last sequence", "key exists"}

func leafByName(n string) *leafDef {
	for i := range leaves {
		if leaves[i].name == n {
			return &leaves[i]
		}
	}
	return nil
}

func (s errSpec) build() (error, int) {
	l := leafByName(s.Leaf)
	if l == nil {
		return errors.New("unknown leaf " + s.Leaf), clsAny
	}
	e := l.mk(s)
	for _, w := range s.Wraps {
		kind, text, _ := strings.Cut(w, ":")
		switch kind {
		case "fmt":
			e = fmt.Errorf("%s: %w", text, e)
		case "election":
			e = leader.NewElectionError("CODE", "inst", text, e)
		case "tokval":
			e = &leader.TokenValidationError{LocalToken: "a", KvToken: "b", Reason: text, Err: e}
		case "timeouterr":
			// only around transient/neutral leaves (a TimeoutError is itself a must-be-transient element)
			e = leader.NewTimeoutError(text, time.Second, e)
		case "join":
			e = errors.Join(errors.New(text), e)
		case "fmt2":
			// two %w verbs: the element sits next to a neutral sibling (errors.Is/As descend into both)
			e = fmt.Errorf("%s: %w (also: %w)", text, errors.New(text), e)
		case "fmt2r":
			e = fmt.Errorf("%s: %w (also: %w)", text, e, errors.New("sibling"))
		}
	}
	return e, l.class
}

func genText() *rapid.Generator[string] {
	return rapid.OneOf(rapid.SampledFrom(patternWords), rapid.String(), rapid.Custom(func(t *rapid.T) string {
		a := rapid.SampledFrom(patternWords).Draw(t, "w1")
		b := rapid.SampledFrom(patternWords).Draw(t, "w2")
		return a + " " + rapid.StringN(0, 5, 10).Draw(t, "mid") + " " + b
	}))
}

func genErrSpec() *rapid.Generator[errSpec] {
	return rapid.Custom(func(t *rapid.T) errSpec {
		// classes are drawn first so that NATS / sentinel leaves are not drowned by free text
		var l leafDef
		switch rapid.IntRange(0, 3).Draw(t, "leafclass") {
		case 0:
			l = rapid.SampledFrom(filterLeaves(clsTransient)).Draw(t, "leaf")
		case 1:
			l = rapid.SampledFrom(filterLeaves(clsPermanent)).Draw(t, "leaf")
		default:
			l = rapid.SampledFrom(leaves).Draw(t, "leaf")
		}
		s := errSpec{Leaf: l.name, Text: genText().Draw(t, "text"), Num: rapid.IntRange(0, 20000).Draw(t, "num")}
		depth := rapid.IntRange(0, 6).Draw(t, "depth")
		for i := 0; i < depth; i++ {
			kinds := []string{"fmt", "fmt", "fmt", "election", "tokval", "join", "fmt2", "fmt2r"}
			if l.class != clsPermanent {
				kinds = append(kinds, "timeouterr")
			}
			k := rapid.SampledFrom(kinds).Draw(t, "wrap")
			s.Wraps = append(s.Wraps, k+":"+genText().Draw(t, "wtext"))
		}
		return s
	})
}

func filterLeaves(c int) []leafDef {
	var out []leafDef
	for _, l := range leaves {
		if l.class == c {
			out = append(out, l)
		}
	}
	return out
}

// checkC15 judges one error tree; returns (signature, message) or ("", "").
func checkC15(s errSpec) (string, string) {
	e, class := s.build()
	// a TimeoutError wrapper makes the tree must-be-transient (only generated around non-permanent leaves)
	for _, w := range s.Wraps {
		if strings.HasPrefix(w, "timeouterr:") && class == clsAny {
			class = clsTransient
		}
	}
	// errors.Join hides nothing from errors.Is/As but its text is multi-line; the statement covers %w nesting,
	// Join is kept to totality/exclusivity only
	for _, w := range s.Wraps {
		if strings.HasPrefix(w, "join:") {
			class = clsAny
		}
	}
	// The NATS client's transient errors are plain values recognised by their text; the statement
	// promises %w-robustness for context errors, TimeoutError and the permanent sentinels, not that a
	// wrapper whose own message says e.g. "revision mismatch" keeps a NATS time-out transient.
	if class == clsTransient && strings.HasPrefix(s.Leaf, "nats.") {
		for _, w := range s.Wraps {
			_, text, _ := strings.Cut(w, ":")
			for _, pw := range permanentWords {
				if strings.Contains(strings.ToLower(text), pw) {
					class = clsAny
				}
			}
		}
	}
	p, tr := leader.IsPermanentError(e), leader.IsTransientError(e)
	desc := fmt.Sprintf("leaf=%s wraps=%q error=%q", s.Leaf, s.Wraps, e.Error())
	if p && tr {
		return "C15 both-permanent-and-transient", "IsPermanentError and IsTransientError are both true for " + desc
	}
	if !p && !tr {
		return "C15 neither-permanent-nor-transient", "a non-nil error is neither permanent nor transient: " + desc
	}
	if class == clsTransient && !tr {
		return "C15 must-be-transient-classified-permanent leaf=" + s.Leaf, "must be transient but IsPermanentError is true: " + desc
	}
	if class == clsPermanent && !p {
		return "C15 must-be-permanent-classified-transient leaf=" + s.Leaf, "must be permanent but IsTransientError is true: " + desc
	}
	return "", ""
}

func TestC15(t *testing.T) {
	r := report.New("C15")
	defer r.Write()
	r.Rule = "error trees: a leaf (every exported sentinel and error type of the library, context.Canceled/DeadlineExceeded, the NATS client's exported errors, *nats.APIError with generated codes, the exact values the client produces for a failed revision-checked Update and a Create on an existing key (as produced by the reference store, validated against a real server by C14) and the 10164 variant a clustered 2.12 server answers while another revision-checked write is in flight, errors.New(text) with text from a dictionary of all pattern words in mixed case or arbitrary strings) wrapped 0-6 times by fmt.Errorf(\"<text>: %w\"), fmt.Errorf with two %w verbs (the element next to a neutral errors.New sibling, either order), ElectionError, TokenValidationError, TimeoutError (only around non-permanent leaves), errors.Join; oracle: exactly one of IsPermanentError / IsTransientError for every non-nil error, both false for nil, class membership for must-be-transient and must-be-permanent leaves. Non-trivial = wrap depth >= 1 or a NATS-client leaf; distinct by hash of the tree."
	r.Assume("for the NATS client's time-out / no-responders / connection-closed values the class is asserted only under wrappers whose own text contains none of the documented permanent marker words")
	r.Assume("trees that mix a must-be-transient element with a must-be-permanent element are not generated (the statement does not order them); errors.Join trees assert only totality/exclusivity")
	judge := func(s errSpec) string {
		sig, msg := checkC15(s)
		nt := len(s.Wraps) >= 1 || strings.HasPrefix(s.Leaf, "nats")
		l := leafByName(s.Leaf)
		cls := "leaf-class-any"
		if l != nil && l.class == clsTransient {
			cls = "leaf-class-must-be-transient"
		} else if l != nil && l.class == clsPermanent {
			cls = "leaf-class-must-be-permanent"
		}
		r.Case(report.Hash(s), nt, cls, fmt.Sprintf("depth=%d", min(len(s.Wraps), 4)))
		if nt {
			e, _ := s.build()
			r.Sample(cls+fmt.Sprint(len(s.Wraps) > 2), map[string]any{"tree": s, "error_text": e.Error(), "permanent": leader.IsPermanentError(e), "transient": leader.IsTransientError(e)})
		}
		if sig == "" || r.IsKnown(sig) {
			return ""
		}
		r.Violation(report.Violation{Signature: sig, Message: msg, Replay: r.SaveReplay(s), Size: len(s.Wraps) + 1})
		return msg
	}
	var rs errSpec
	if is, err := report.LoadReplay(&rs); is {
		if err != nil {
			t.Fatal(err)
		}
		if msg := judge(rs); msg != "" {
			t.Error(msg)
		}
		return
	}
	if leader.IsPermanentError(nil) || leader.IsTransientError(nil) {
		r.Violation(report.Violation{Signature: "C15 nil-classified", Message: "nil is classified as permanent or transient"})
		t.Error("nil classified")
	}
	// every leaf bare and under one plain %w wrapper (complete enumeration)
	t.Run("enumerated", func(t *testing.T) {
		for _, l := range leaves {
			for _, text := range patternWords {
				for _, wraps := range [][]string{nil, {"fmt:" + text}, {"fmt:ctx", "election:" + text}, {"fmt2:" + text}, {"fmt2r:" + text, "fmt:" + text}} {
					if msg := judge(errSpec{Leaf: l.name, Text: text, Num: 7, Wraps: wraps}); msg != "" {
						t.Error(msg)
					}
				}
			}
		}
	})
	t.Run("generated", func(t *testing.T) {
		rapid.Check(t, func(rt *rapid.T) {
			if msg := judge(genErrSpec().Draw(rt, "err")); msg != "" {
				rt.Fatalf("%s", msg)
			}
		})
	})
}

// FuzzC15: free text and shape bytes (thorough tier).
func FuzzC15(f *testing.F) {
	for _, w := range patternWords {
		f.Add(w, []byte{1, 2, 3})
		f.Add(strings.ToUpper(w), []byte{0})
	}
	f.Fuzz(func(t *testing.T, text string, shape []byte) {
		s := errSpec{Leaf: leaves[0].name, Text: text}
		if len(shape) > 0 {
			s.Leaf = leaves[int(shape[0])%len(leaves)].name
		}
		l := leafByName(s.Leaf)
		for i, b := range shape {
			if i == 0 || i > 6 {
				continue
			}
			kinds := []string{"fmt", "election", "tokval", "fmt2", "fmt2r"}
			if l.class != clsPermanent {
				kinds = append(kinds, "timeouterr")
			}
			s.Wraps = append(s.Wraps, kinds[int(b)%len(kinds)]+":"+text)
		}
		if sig, msg := checkC15(s); sig != "" {
			t.Fatalf("%s: %s", sig, msg)
		}
	})
}
