package pure

import (
	"context"
	"errors"
	"fmt"
	"runtime"
	"strings"
	"testing"
	"time"

	"github.com/ali-assar/NATS-Leader-Election/leader"
	"github.com/nats-io/nats.go"
	"github.com/prometheus/client_golang/prometheus"
	"go.uber.org/zap"
	"pgregory.net/rapid"

	"verif/harness/report"
)

// ---- recording collaborators -------------------------------------------------

type recProvider struct {
	js, kv int
	bucket string
}

func (p *recProvider) JetStream() (leader.JetStreamContext, error) { p.js++; return &recJS{p}, nil }

type recJS struct{ p *recProvider }

func (j *recJS) KeyValue(b string) (leader.KeyValue, error) {
	j.p.kv++
	j.p.bucket = b
	return &countKV{p: j.p}, nil
}

type countKV struct {
	p   *recProvider
	ops int
}

func (k *countKV) Create(string, []byte, ...interface{}) (uint64, error) {
	k.ops++
	return 0, errors.New("x")
}
func (k *countKV) Update(string, []byte, uint64, ...interface{}) (uint64, error) {
	k.ops++
	return 0, errors.New("x")
}
func (k *countKV) Get(string) (leader.Entry, error) { k.ops++; return nil, errors.New("x") }
func (k *countKV) Delete(string) error              { k.ops++; return errors.New("x") }
func (k *countKV) Watch(string, ...interface{}) (leader.Watcher, error) {
	k.ops++
	return nil, errors.New("x")
}

type countCollab struct{ n int }

func (c *countCollab) SetIsLeader(float64, prometheus.Labels)                    { c.n++ }
func (c *countCollab) SetConnectionStatus(float64, prometheus.Labels)            { c.n++ }
func (c *countCollab) IncTransitions(prometheus.Labels)                          { c.n++ }
func (c *countCollab) IncFailures(prometheus.Labels)                             { c.n++ }
func (c *countCollab) IncAcquireAttempts(prometheus.Labels)                      { c.n++ }
func (c *countCollab) IncTokenValidationFailures(prometheus.Labels)              { c.n++ }
func (c *countCollab) ObserveHeartbeatDuration(time.Duration, prometheus.Labels) { c.n++ }
func (c *countCollab) ObserveLeaderDuration(time.Duration, prometheus.Labels)    { c.n++ }
func (c *countCollab) Debug(string, ...zap.Field)                                { c.n++ }
func (c *countCollab) Info(string, ...zap.Field)                                 { c.n++ }
func (c *countCollab) Warn(string, ...zap.Field)                                 { c.n++ }
func (c *countCollab) Error(string, ...zap.Field)                                { c.n++ }
func (c *countCollab) Fatal(string, ...zap.Field)                                { c.n++ }
func (c *countCollab) Check(context.Context) bool                                { c.n++; return true }

// ---- the configuration as data ------------------------------------------------

type cfg16 struct {
	Bucket, Group, ID string
	H, TTL, VI, DGP   time.Duration
	MCF, Prio         int
	Takeover          bool
	Collab            int // bit0 metrics, bit1 logger, bit2 health
}

func (c cfg16) String() string {
	s := func(x string) string {
		if len(x) > 12 {
			return fmt.Sprintf("%q…(%d bytes)", x[:8], len(x))
		}
		return fmt.Sprintf("%q", x)
	}
	return fmt.Sprintf("Bucket=%s Group=%s ID=%s H=%d TTL=%d VI=%d DGP=%d MCF=%d Prio=%d Takeover=%v collab=%03b",
		s(c.Bucket), s(c.Group), s(c.ID), int64(c.H), int64(c.TTL), int64(c.VI), int64(c.DGP), c.MCF, c.Prio, c.Takeover, c.Collab)
}

// violatedFields is the independent predicate, transcribed from the statement of
// C16: it returns, per violated rule, the set of fields that participate in it.
// Empty result <=> the configuration must be accepted.
func violatedFields(c cfg16) [][]string {
	var v [][]string
	if c.Bucket == "" {
		v = append(v, []string{"Bucket"})
	}
	if c.Group == "" {
		v = append(v, []string{"Group"})
	}
	if c.ID == "" {
		v = append(v, []string{"InstanceID"})
	}
	if !(c.TTL > 0) {
		v = append(v, []string{"TTL"})
	}
	if !(c.H > 0) {
		v = append(v, []string{"HeartbeatInterval"})
	}
	if !(int64(c.TTL) >= 3*int64(c.H)) {
		v = append(v, []string{"TTL", "HeartbeatInterval"})
	}
	if !(c.VI == 0 || c.VI >= c.H) {
		v = append(v, []string{"ValidationInterval", "HeartbeatInterval"})
	}
	if !(c.DGP == 0 || int64(c.DGP) >= 2*int64(c.H)) {
		v = append(v, []string{"DisconnectGracePeriod", "HeartbeatInterval"})
	}
	if !(c.MCF >= 0) {
		v = append(v, []string{"MaxConsecutiveFailures"})
	}
	if c.Takeover && !(c.Prio > 0) {
		v = append(v, []string{"Priority", "AllowPriorityTakeover"})
	}
	return v
}

// nearBoundary: some duration lies within 1ns of one of its thresholds.
func nearBoundary(c cfg16) bool {
	ab := func(a, b int64) bool { d := a - b; return d >= -1 && d <= 1 }
	return ab(int64(c.TTL), 0) || ab(int64(c.H), 0) || ab(int64(c.TTL), 3*int64(c.H)) ||
		ab(int64(c.VI), 0) || ab(int64(c.VI), int64(c.H)) || ab(int64(c.DGP), 0) || ab(int64(c.DGP), 2*int64(c.H)) ||
		ab(int64(c.MCF), 0) || ab(int64(c.Prio), 0)
}

// checkC16 runs NewElection on one configuration and judges it. It returns
// ("", "") when the property holds, else (signature, message).
func checkC16(c cfg16) (string, string) {
	p := &recProvider{}
	col := &countCollab{}
	ec := leader.ElectionConfig{Bucket: c.Bucket, Group: c.Group, InstanceID: c.ID, TTL: c.TTL, HeartbeatInterval: c.H,
		ValidationInterval: c.VI, DisconnectGracePeriod: c.DGP, MaxConsecutiveFailures: c.MCF, Priority: c.Prio,
		AllowPriorityTakeover: c.Takeover}
	if c.Collab&1 != 0 {
		ec.Metrics = col
	}
	if c.Collab&2 != 0 {
		ec.Logger = col
	}
	if c.Collab&4 != 0 {
		ec.HealthChecker = col
	}
	g0 := runtime.NumGoroutine()
	el, err := leader.NewElection(p, ec)
	g1 := runtime.NumGoroutine()
	viol := violatedFields(c)
	if len(viol) == 0 {
		if err != nil {
			return "C16 valid-config-rejected", fmt.Sprintf("valid configuration rejected: %v  [%s]", err, c)
		}
		if p.js != 1 || p.kv != 1 || p.bucket != c.Bucket {
			return "C16 accept-store-contact", fmt.Sprintf("accepted, but JetStream()=%d KeyValue()=%d bucket=%q [%s]", p.js, p.kv, p.bucket, c)
		}
		st := el.Status()
		if st.State != leader.StateInit || st.IsLeader || el.IsLeader() {
			return "C16 accept-not-init", fmt.Sprintf("accepted, but state=%s isLeader=%v [%s]", st.State, st.IsLeader, c)
		}
	} else {
		rule := strings.Join(viol[0], "/")
		if err == nil {
			return "C16 invalid-config-accepted rule=" + ruleName(c, viol), fmt.Sprintf("invalid configuration accepted (violates %v) [%s]", viol, c)
		}
		var ve *leader.ValidationError
		if !errors.As(err, &ve) {
			return "C16 reject-not-validation-error", fmt.Sprintf("rejected with %T (%v), not a *ValidationError [%s]", err, err, c)
		}
		ok := false
		for _, fs := range viol {
			for _, f := range fs {
				if f == ve.Field {
					ok = true
				}
			}
		}
		if !ok {
			return "C16 reject-wrong-field " + rule, fmt.Sprintf("rejected naming field %q, violated rules involve %v [%s]", ve.Field, viol, c)
		}
		if p.js != 0 || p.kv != 0 {
			return "C16 reject-after-store-contact", fmt.Sprintf("rejected (%v) but store was contacted: JetStream()=%d KeyValue()=%d [%s]", err, p.js, p.kv, c)
		}
		// the other constructor, on a connection that was never dialled: whatever touches the store before
		// validation gets that connection's error instead of the error that names the field
		var err2 error
		func() {
			defer func() {
				if r := recover(); r != nil {
					err2 = fmt.Errorf("panic: %v", r) // the never-dialled connection was used
				}
			}()
			_, err2 = leader.NewElectionWithConn(&nats.Conn{}, ec)
		}()
		var ve2 *leader.ValidationError
		if err2 == nil || !errors.As(err2, &ve2) || ve2.Field != ve.Field {
			return "C16 reject-differs-through-NewElectionWithConn", fmt.Sprintf("NewElection rejects naming %q, NewElectionWithConn on a connection that was never dialled returns: %v [%s]", ve.Field, err2, c)
		}
	}
	if g1 > g0 {
		// the runtime starts goroutines of its own now and then (GC workers, timers): only goroutines with a
		// frame of the library count, looked at after a moment so that a short-lived one has gone
		time.Sleep(time.Millisecond)
		if n := libraryGoroutines(); n > 0 {
			return "C16 goroutine-started", fmt.Sprintf("NewElection left %d goroutine(s) with library frames running [%s]", n, c)
		}
	}
	if col.n != 0 {
		return "C16 collaborator-invoked", fmt.Sprintf("NewElection invoked Metrics/Logger/HealthChecker %d time(s) [%s]", col.n, c)
	}
	return "", ""
}

// ruleName names the violated rule set so that two different acceptance bugs get
// two different signatures.
func ruleName(c cfg16, viol [][]string) string {
	var names []string
	for _, fs := range viol {
		n := fs[0]
		switch {
		case n == "ValidationInterval" && c.VI < 0:
			n = "ValidationInterval<0"
		case n == "DisconnectGracePeriod" && c.DGP < 0:
			n = "DisconnectGracePeriod<0"
		case len(fs) == 2 && fs[0] == "TTL":
			n = "TTL<3H"
		}
		names = append(names, n)
	}
	return strings.Join(names, "+")
}

// ---- lattice -------------------------------------------------------------------

const year = 365 * 24 * time.Hour

var (
	latStr = []string{"", "a", "grp/with.slash_" + strings.Repeat("x", 285)}
	latH   = []time.Duration{-year, -1, 0, 1, time.Millisecond, time.Second, year / 3}
	latMCF = []int{-2, -1, 0, 1, 3}
	latPri = []int{-1, 0, 1, 10}
)

func latTTL(h time.Duration) []time.Duration {
	return []time.Duration{-1, 0, 1, 3*h - 1, 3 * h, 3*h + 1, year}
}
func latVI(h time.Duration) []time.Duration {
	return []time.Duration{-year, -1, 0, 1, h - 1, h, h + 1, year}
}
func latDGP(h time.Duration) []time.Duration {
	return []time.Duration{-1, 0, 1, 2*h - 1, 2 * h, 2*h + 1, year}
}

var validBase = cfg16{Bucket: "b", Group: "g", ID: "i", H: time.Second, TTL: 3 * time.Second, MCF: 0, Prio: 1}

func genCfg16() *rapid.Generator[cfg16] {
	return rapid.Custom(func(t *rapid.T) cfg16 {
		dur := func(name string, lat []time.Duration) time.Duration {
			if rapid.IntRange(0, 9).Draw(t, name+"_mode") < 7 {
				return rapid.SampledFrom(lat).Draw(t, name)
			}
			return time.Duration(rapid.Int64Range(-int64(year), int64(year)).Draw(t, name))
		}
		str := func(name string) string {
			switch rapid.IntRange(0, 5).Draw(t, name+"_mode") {
			case 0, 1:
				return ""
			case 2:
				return rapid.String().Draw(t, name)
			case 3:
				return "ünïcødé-群"
			case 4:
				return latStr[2]
			default:
				return "a"
			}
		}
		// a valid configuration first (construction, not rejection) ...
		c := cfg16{Bucket: "b", Group: "g", ID: "i"}
		c.H = time.Duration(rapid.Int64Range(1, int64(year/3)).Draw(t, "H0"))
		c.TTL = 3*c.H + time.Duration(rapid.SampledFrom([]int64{0, 1, int64(c.H), int64(year) - 3*int64(c.H)}).Draw(t, "TTL0"))
		c.VI = rapid.SampledFrom([]time.Duration{0, c.H, c.H + 1, year}).Draw(t, "VI0")
		c.DGP = rapid.SampledFrom([]time.Duration{0, 2 * c.H, 2*c.H + 1, year}).Draw(t, "DGP0")
		c.MCF = rapid.IntRange(0, 5).Draw(t, "MCF0")
		c.Takeover = rapid.Bool().Draw(t, "Takeover0")
		c.Prio = rapid.IntRange(1, 9).Draw(t, "Prio0")
		if !c.Takeover {
			c.Prio = rapid.IntRange(-3, 9).Draw(t, "Prio0b")
		}
		c.Collab = rapid.IntRange(0, 7).Draw(t, "collab")
		// ... then 0..3 fields pushed onto (or across) their boundaries
		k := rapid.SampledFrom([]int{0, 1, 1, 1, 2, 2, 3}).Draw(t, "perturbations")
		for i := 0; i < k; i++ {
			switch rapid.IntRange(0, 9).Draw(t, "field") {
			case 0:
				c.Bucket = str("bucket")
			case 1:
				c.Group = str("group")
			case 2:
				c.ID = str("id")
			case 3:
				c.H = dur("H", append(latH, c.TTL/3, c.TTL/3+1, c.VI, c.VI+1, c.DGP/2, c.DGP/2+1))
			case 4:
				c.TTL = dur("TTL", latTTL(c.H))
			case 5:
				c.VI = dur("VI", latVI(c.H))
			case 6:
				c.DGP = dur("DGP", latDGP(c.H))
			case 7:
				c.MCF = rapid.OneOf(rapid.SampledFrom(latMCF), rapid.IntRange(-5, 100)).Draw(t, "MCF")
			case 8:
				c.Prio = rapid.OneOf(rapid.SampledFrom(latPri), rapid.IntRange(-5, 1000)).Draw(t, "Prio")
			case 9:
				c.Takeover = !c.Takeover
			}
		}
		return c
	})
}

func record16(r *report.R, c cfg16) (string, string) {
	sig, msg := checkC16(c)
	viol := violatedFields(c)
	cls := "accepted-expected"
	if len(viol) > 0 {
		cls = "rejected-expected"
	}
	nt := nearBoundary(c) || len(viol) >= 2
	r.Case(report.Hash(c), nt, cls, fmt.Sprintf("rules-violated-%d", min(len(viol), 3)))
	key := cls
	if nt {
		key += "-nt"
	}
	r.Sample(key, map[string]any{"config": c.String(), "violated_rules": viol, "expected": cls})
	return sig, msg
}

func TestC16(t *testing.T) {
	r := report.New("C16")
	defer r.Write()
	r.Rule = "configurations drawn from the boundary lattice of every field (each duration at/1ns below/1ns above each threshold, 0, negative, up to 1 year; strings empty/short/300-byte/non-ASCII/arbitrary; ints around 0) mixed with uniform draws in +-1 year; plus complete enumeration of all pairwise deviations from a valid base (quick) or of the whole lattice product (thorough, sharded). Every rejected configuration is also offered to NewElectionWithConn with a *nats.Conn that was never dialled: the same field's ValidationError must come back (nothing may touch the connection before validation). Non-trivial = some field within 1ns/1 of a threshold, or >= 2 rules violated; distinct by hash of the configuration."
	r.Assume("durations up to 1 year so that 3*HeartbeatInterval cannot overflow int64")
	r.Assume("provider returns a working JetStream/KeyValue; NewElection is called sequentially (goroutine count is compared before/after)")
	var cur cfg16
	fail := func(sig, msg string) bool {
		if sig == "" {
			return false
		}
		if r.IsKnown(sig) {
			return false
		}
		r.Violation(report.Violation{Signature: sig, Message: msg, Replay: r.SaveReplay(cur)})
		return true
	}
	var rc cfg16
	if is, err := report.LoadReplay(&rc); is {
		if err != nil {
			t.Fatalf("replay: %v", err)
		}
		cur = rc
		if sig, msg := record16(r, rc); fail(sig, msg) {
			t.Errorf("%s", msg)
		}
		return
	}

	// 1. complete single and pairwise deviations from the valid base (both tiers)
	type setter func(*cfg16, int) bool // returns false when index is out of range
	setters := []setter{
		func(c *cfg16, i int) bool {
			if i >= len(latStr) {
				return false
			}
			c.Bucket = latStr[i]
			return true
		},
		func(c *cfg16, i int) bool {
			if i >= len(latStr) {
				return false
			}
			c.Group = latStr[i]
			return true
		},
		func(c *cfg16, i int) bool {
			if i >= len(latStr) {
				return false
			}
			c.ID = latStr[i]
			return true
		},
		func(c *cfg16, i int) bool {
			if i >= len(latH) {
				return false
			}
			c.H = latH[i]
			return true
		},
		func(c *cfg16, i int) bool {
			l := latTTL(c.H)
			if i >= len(l) {
				return false
			}
			c.TTL = l[i]
			return true
		},
		func(c *cfg16, i int) bool {
			l := latVI(c.H)
			if i >= len(l) {
				return false
			}
			c.VI = l[i]
			return true
		},
		func(c *cfg16, i int) bool {
			l := latDGP(c.H)
			if i >= len(l) {
				return false
			}
			c.DGP = l[i]
			return true
		},
		func(c *cfg16, i int) bool {
			if i >= len(latMCF) {
				return false
			}
			c.MCF = latMCF[i]
			return true
		},
		func(c *cfg16, i int) bool {
			if i >= len(latPri) {
				return false
			}
			c.Prio = latPri[i]
			return true
		},
		func(c *cfg16, i int) bool {
			if i >= 2 {
				return false
			}
			c.Takeover = i == 1
			return true
		},
	}
	pair := 0
	for a := 0; a < len(setters); a++ {
		for b := a; b < len(setters); b++ {
			for i := 0; ; i++ {
				c := validBase
				if !setters[a](&c, i) {
					break
				}
				for j := 0; ; j++ {
					d := c
					if !setters[b](&d, j) {
						break
					}
					// relative lattices depend on H: re-apply a after b when b changed H
					d.Collab = pair % 8
					pair++
					cur = d
					if sig, msg := record16(r, d); fail(sig, msg) {
						t.Errorf("%s", msg)
					}
				}
			}
		}
	}
	r.Extra("pairwise_configs", pair)

	// 2. thorough: the whole lattice product, sharded
	if report.Tier() == "thorough" {
		k, n := report.Shard()
		idx, done := 0, 0
		for _, bu := range latStr {
			for _, gr := range latStr {
				for _, id := range latStr {
					for _, h := range latH {
						for _, ttl := range latTTL(h) {
							for _, vi := range latVI(h) {
								for _, dgp := range latDGP(h) {
									for _, mcf := range latMCF {
										for _, pr := range latPri {
											for _, tk := range []bool{false, true} {
												idx++
												if idx%n != k {
													continue
												}
												c := cfg16{bu, gr, id, h, ttl, vi, dgp, mcf, pr, tk, idx % 8}
												done++
												cur = c
												if sig, msg := record16(r, c); fail(sig, msg) {
													t.Errorf("%s", msg)
													if r.NumViolations() > 20 {
														goto out
													}
												}
											}
										}
									}
								}
							}
						}
					}
				}
			}
		}
	out:
		r.Extra("lattice_product_size", idx)
		r.Extra("sum_lattice_product_done", done)
		r.Exhaustive = true
	}

	// 3. generated configurations (leave the lattice)
	t.Run("generated", func(t *testing.T) {
		rapid.Check(t, func(rt *rapid.T) {
			c := genCfg16().Draw(rt, "cfg")
			cur = c
			if sig, msg := record16(r, c); fail(sig, msg) {
				rt.Fatalf("%s", msg)
			}
		})
	})
}

// libraryGoroutines counts goroutines (other than the caller) whose stack has a frame of the library.
func libraryGoroutines() int {
	buf := make([]byte, 1<<20)
	buf = buf[:runtime.Stack(buf, true)]
	n := 0
	for i, g := range strings.Split(string(buf), "\n\n") {
		if i > 0 && strings.Contains(g, "NATS-Leader-Election/leader.") {
			n++
		}
	}
	return n
}
