package pure

import (
	"sync/atomic"
	"context"
	"errors"
	"fmt"
	"math"
	"math/big"
	"strings"
	"testing"
	"testing/synctest"
	"time"

	"github.com/ali-assar/NATS-Leader-Election/leader"
	"pgregory.net/rapid"

	"verif/harness/report"
)

// ---- CalculateBackoff --------------------------------------------------------------

type boCase struct {
	Initial, Max time.Duration
	Mult, Jit    float64
	Attempt      int
	Dice         float64
}

// refBase computes min(Max, Initial*Mult^n) independently (big floats, overflow handled through logarithms).
func refBase(c boCase) float64 {
	if c.Max <= 0 {
		return float64(c.Max)
	}
	lg := math.Log2(float64(c.Initial)) + float64(c.Attempt)*math.Log2(c.Mult)
	if lg > 70 {
		return float64(c.Max)
	}
	if lg < -70 {
		return 0
	}
	b := new(big.Float).SetPrec(256).SetInt64(int64(c.Initial))
	m := new(big.Float).SetPrec(256).SetFloat64(c.Mult)
	pow := new(big.Float).SetPrec(256).SetInt64(1)
	n := c.Attempt
	sq := new(big.Float).SetPrec(256).Copy(m)
	for n > 0 {
		if n&1 == 1 {
			pow.Mul(pow, sq)
		}
		sq.Mul(sq, sq)
		n >>= 1
	}
	b.Mul(b, pow)
	f, _ := b.Float64()
	if f > float64(c.Max) {
		return float64(c.Max)
	}
	return f
}

func checkBackoff(c boCase, hooked bool) (string, string) {
	if hooked {
		leader.VerifRandHook = func() float64 { return c.Dice }
		defer func() { leader.VerifRandHook = nil }()
	}
	got := leader.CalculateBackoff(leader.BackoffConfig{InitialBackoff: c.Initial, MaxBackoff: c.Max, BackoffMultiplier: c.Mult, Jitter: c.Jit}, c.Attempt)
	base := refBase(c)
	tol := 16 + 1e-9*math.Abs(base)
	lo, hi := base*(1-c.Jit)-tol, base*(1+c.Jit)+tol
	desc := fmt.Sprintf("CalculateBackoff({Initial:%v Max:%v Mult:%v Jitter:%v}, %d) = %v (%d ns), base=%.1f ns", c.Initial, c.Max, c.Mult, c.Jit, c.Attempt, got, int64(got), base)
	if got < 0 {
		return "C17 backoff-negative", desc
	}
	if float64(got) < lo || float64(got) > hi {
		return "C17 backoff-outside-jitter-band", desc + fmt.Sprintf(", allowed [%.1f, %.1f]", lo, hi)
	}
	if hooked {
		want := base + base*c.Jit*(2*c.Dice-1)
		if want < 0 {
			want = base
		}
		if math.Abs(float64(got)-want) > tol {
			return "C17 backoff-differs-from-formula", desc + fmt.Sprintf(", with dice %v expected %.1f ns", c.Dice, want)
		}
	}
	return "", ""
}

func genBoCase() *rapid.Generator[boCase] {
	return rapid.Custom(func(t *rapid.T) boCase {
		c := boCase{}
		c.Initial = time.Duration(rapid.OneOf(rapid.Int64Range(1, int64(time.Hour)), rapid.SampledFrom([]int64{1, int64(time.Millisecond), int64(50 * time.Millisecond), int64(time.Hour)})).Draw(t, "initial"))
		c.Max = time.Duration(rapid.OneOf(rapid.Int64Range(0, int64(year)), rapid.SampledFrom([]int64{0, 1, int64(5 * time.Second), int64(year)})).Draw(t, "max"))
		c.Mult = rapid.OneOf(rapid.Float64Range(0.5, 16), rapid.SampledFrom([]float64{0.5, 1, 2, 16})).Draw(t, "mult")
		c.Jit = rapid.OneOf(rapid.Float64Range(0, 1), rapid.SampledFrom([]float64{0, 0.1, 1})).Draw(t, "jitter")
		c.Attempt = rapid.OneOf(rapid.IntRange(0, 64), rapid.SampledFrom([]int{0, 1, 10, 63, 64, 1000, 1000000, math.MaxInt32, math.MaxInt})).Draw(t, "attempt")
		c.Dice = rapid.OneOf(rapid.Float64Range(0, 0.9999999999), rapid.SampledFrom([]float64{0, 1 - 1.0/(1<<53), 0.5})).Draw(t, "dice")
		return c
	})
}

// ---- RetryWithBackoff ----------------------------------------------------------------

type retryCase struct {
	MaxAttempts int
	Script      []int // 0 success, 1 transient error, 2 permanent error
	CancelMode  int   // 0 never, 1 before first call, 2 during invocation k, 3 during wait k
	CancelK     int
	CancelOff   time.Duration
	Dice        []float64
	Breaker     int // 0 none, else failure threshold
	LongFail    int // that many transient failures come before Script (long failure runs, large MaxAttempts)
	Cfg         int // backoff configuration: 0 {50ms, 400ms, x2, jitter 0.5}, 1 the zero value (no wait at all), 2 {50ms, 400ms, x2, jitter 0}
}

// retryBackoffs: the configurations RetryWithBackoff is driven with.
var retryBackoffs = []leader.BackoffConfig{
	{InitialBackoff: 50 * time.Millisecond, MaxBackoff: 400 * time.Millisecond, BackoffMultiplier: 2, Jitter: 0.5},
	{},
	{InitialBackoff: 50 * time.Millisecond, MaxBackoff: 400 * time.Millisecond, BackoffMultiplier: 2, Jitter: 0},
}

// refBackoff: base wait before invocation k+1 and the jitter fraction, for configuration cfg.
func refBackoff(cfg, k int) (bo, jit float64) {
	bc := retryBackoffs[cfg]
	bo = float64(bc.InitialBackoff) * math.Pow(bc.BackoffMultiplier, float64(k))
	if bo > float64(bc.MaxBackoff) {
		bo = float64(bc.MaxBackoff)
	}
	return bo, bc.Jitter
}

var errTransientX = errors.New("temporary glitch")
var errPermanentX = fmt.Errorf("denied: %w", leader.ErrPermissionDenied)

func checkRetry(t *testing.T, c retryCase, hooked bool) (sig, msg string) {
	if c.LongFail > 0 {
		long := make([]int, c.LongFail, c.LongFail+len(c.Script))
		for i := range long {
			long[i] = 1
		}
		c.Script = append(long, c.Script...)
	}
	cfg := leader.RetryConfig{MaxAttempts: c.MaxAttempts, BackoffConfig: retryBackoffs[c.Cfg]}
	synctest.Test(t, func(t *testing.T) {
		di := 0
		var dice []float64
		if hooked {
			leader.VerifRandHook = func() float64 {
				v := 0.5
				if len(c.Dice) > 0 {
					v = c.Dice[di%len(c.Dice)]
				}
				di++
				dice = append(dice, v)
				return v
			}
			defer func() { leader.VerifRandHook = nil }()
		}
		if c.Breaker > 0 {
			cfg.CircuitBreaker = leader.NewCircuitBreaker(c.Breaker, time.Hour)
		}
		ctx, cancel := context.WithCancel(context.Background())
		defer cancel()
		t0 := time.Now()
		var calls []time.Duration
		var cancelledAt time.Duration = -1
		var cancelledAtA atomic.Int64
		cancelledAtA.Store(math.MaxInt64)
		doCancel := func() {
			if cancelledAt < 0 {
				cancelledAt = time.Since(t0)
				cancelledAtA.Store(int64(cancelledAt))
				cancel()
			}
		}
		if c.CancelMode == 1 {
			doCancel()
		}
		finished := false
		invokedCancelled := -1
		fn := func() error {
			calls = append(calls, time.Since(t0))
			k := len(calls) - 1
			// (a cancellation that is concurrent with the start of the invocation - issued by a timer callback at
			// the same virtual instant - can go unseen by any implementation: only cancellations that happened
			// before count, i.e. by the caller's own goroutine or at an earlier instant)
			if ctx.Err() != nil && invokedCancelled < 0 && (c.CancelMode == 1 || c.CancelMode == 2 || time.Duration(cancelledAtA.Load()) < time.Since(t0)) {
				invokedCancelled = k
			}
			if c.CancelMode == 2 && k == c.CancelK {
				doCancel()
			}
			if c.CancelMode == 3 && k == c.CancelK {
				time.AfterFunc(c.CancelOff, doCancel)
			}
			if c.CancelMode == 4 && k == c.CancelK {
				// at the very instant the wait that follows this invocation ends (exact when there is no jitter
				// or the dice are known: 0.5 when none are supplied)
				bo, jit := refBackoff(c.Cfg, k)
				f := 0.5
				if hooked && len(c.Dice) > 0 {
					f = c.Dice[k%len(c.Dice)]
				}
				time.AfterFunc(time.Duration(bo+bo*jit*(2*f-1)), doCancel)
			}
			out := 0
			if k < len(c.Script) {
				out = c.Script[k]
			}
			switch out {
			case 1:
				return errTransientX
			case 2:
				return errPermanentX
			}
			return nil
		}
		err := leader.RetryWithBackoff(ctx, cfg, fn)
		finished = true
		_ = finished
		after := len(calls)
		time.Sleep(10 * time.Second)
		shown, shownCase := fmt.Sprint(calls), c
		if len(calls) > 12 {
			shown = fmt.Sprintf("%v ... %v (%d invocations)", calls[:6], calls[len(calls)-3:], len(calls))
		}
		if len(shownCase.Script) > 12 {
			shownCase.Script = append(append([]int(nil), shownCase.Script[:3]...), shownCase.Script[len(shownCase.Script)-min(8, len(shownCase.Script)-3):]...)
		}
		desc := fmt.Sprintf("case=%+v (script: LongFail transient failures, then the tail shown) calls at %s, returned %v", shownCase, shown, err)
		if invokedCancelled >= 0 {
			sig, msg = "C17 operation-invoked-after-context-cancellation", desc+fmt.Sprintf("; invocation %d began with the context already cancelled (cancelled at %v)", invokedCancelled, cancelledAt)
			return
		}
		if len(calls) != after {
			sig, msg = "C17 retry-invokes-after-return", desc
			return
		}
		n := len(calls)
		if c.MaxAttempts > 0 && n > c.MaxAttempts {
			sig, msg = "C17 retry-exceeds-max-attempts", desc
			return
		}
		// reference run of the script on a virtual time line. waitLo/waitHi bound the wait after invocation k
		// (exact when the dice are known); a cancellation that falls between them may go either way.
		wantCalls, wantErr := 0, "nil"
		brkFails := 0
		either := false
		var now, cancelAt time.Duration
		cancelAt = -1
		if c.CancelMode == 1 {
			cancelAt = 0
		}
		for k := 0; ; k++ {
			if cancelAt >= 0 && cancelAt <= now {
				wantErr = "ctx"
				break
			}
			if c.Breaker > 0 && brkFails >= c.Breaker {
				wantErr = "open"
				break
			}
			wantCalls++
			if c.CancelMode == 2 && k == c.CancelK {
				cancelAt = now
			}
			if c.CancelMode == 3 && k == c.CancelK {
				cancelAt = now + c.CancelOff
			}
			if c.CancelMode == 4 && k == c.CancelK {
				bo, jit := refBackoff(c.Cfg, k)
				f := 0.5
				if hooked && len(c.Dice) > 0 {
					f = c.Dice[k%len(c.Dice)]
				}
				cancelAt = now + time.Duration(bo+bo*jit*(2*f-1))
			}
			out := 0
			if k < len(c.Script) {
				out = c.Script[k]
			}
			if out == 0 {
				break
			}
			brkFails++
			if out == 2 {
				wantErr = "perm"
				break
			}
			if c.MaxAttempts > 0 && k >= c.MaxAttempts-1 {
				wantErr = "max"
				break
			}
			bo, jit := refBackoff(c.Cfg, k)
			lo, hi := time.Duration(bo*(1-jit)), time.Duration(bo*(1+jit))
			if hooked {
				f := 0.5
				if len(c.Dice) > 0 {
					f = c.Dice[k%len(c.Dice)]
				}
				w := time.Duration(bo + bo*jit*(2*f-1))
				lo, hi = w, w
			}
			if cancelAt >= 0 {
				switch {
				case c.CancelMode == 4 && k == c.CancelK:
					// timer and cancellation fall on the same instant: the wait may end either way, and so may
					// any number of further waits of length zero
					either = true
				case cancelAt <= now, cancelAt < now+lo-2:
					wantErr = "ctx"
				case cancelAt <= now+hi+2:
					either = true
				}
				if wantErr == "ctx" || either {
					break
				}
			}
			now += (lo + hi) / 2
		}
		if either {
			wantCalls = -1
		}
		gotErr := "nil"
		switch {
		case err == nil:
		case errors.Is(err, context.Canceled):
			gotErr = "ctx"
		case err.Error() == "circuit breaker is open":
			gotErr = "open"
		case strings.Contains(err.Error(), "max attempts"):
			gotErr = "max"
			if !errors.Is(err, errTransientX) {
				sig, msg = "C17 retry-max-attempts-error-does-not-wrap-last-error", desc
				return
			}
		case errors.Is(err, leader.ErrPermissionDenied):
			gotErr = "perm"
		default:
			gotErr = "other:" + err.Error()
		}
		if wantCalls >= 0 && (n != wantCalls || gotErr != wantErr) {
			sig, msg = "C17 retry-deviates-from-reference want="+wantErr+" got="+gotErr, desc+fmt.Sprintf("; reference: %d invocations, result %s", wantCalls, wantErr)
			return
		}
		// gaps between invocations equal the computed backoff (dice known), else lie in the jitter band
		for k := 1; k < n; k++ {
			gap := calls[k] - calls[k-1]
			bo, jit := refBackoff(c.Cfg, k-1)
			if hooked && k-1 < len(dice) {
				want := time.Duration(bo + bo*jit*(2*dice[k-1]-1))
				if d := gap - want; d < -2 || d > 2 {
					sig, msg = "C17 retry-wait-differs-from-backoff", desc+fmt.Sprintf("; gap before invocation %d is %v, computed backoff %v", k, gap, want)
					return
				}
			} else if float64(gap) < bo*(1-jit)-2 || float64(gap) > bo*(1+jit)+2 {
				sig, msg = "C17 retry-wait-outside-jitter-band", desc+fmt.Sprintf("; gap before invocation %d is %v", k, gap)
				return
			}
		}
	})
	return
}

func genRetryCase() *rapid.Generator[retryCase] {
	return rapid.Custom(func(t *rapid.T) retryCase {
		c := retryCase{MaxAttempts: rapid.IntRange(0, 6).Draw(t, "max")}
		if rapid.IntRange(0, 4).Draw(t, "long") == 0 {
			// long failure runs against large (or no) limits
			c.MaxAttempts = rapid.OneOf(rapid.SampledFrom([]int{0, 31, 32, 33, 62, 63, 64, 65, 66, 100, 127, 128, 129, 250}), rapid.IntRange(7, 300)).Draw(t, "max_large")
			c.LongFail = rapid.SampledFrom([]int{max(1, c.MaxAttempts-2), max(1, c.MaxAttempts-1), max(1, c.MaxAttempts), c.MaxAttempts + 1, c.MaxAttempts + 40, 300}).Draw(t, "long_fail")
		}
		n := rapid.IntRange(0, 8).Draw(t, "len")
		for i := 0; i < n; i++ {
			c.Script = append(c.Script, rapid.SampledFrom([]int{1, 1, 1, 0, 2}).Draw(t, "o"))
		}
		c.CancelMode = rapid.SampledFrom([]int{0, 0, 1, 2, 3, 4}).Draw(t, "cancel")
		c.Cfg = rapid.SampledFrom([]int{0, 0, 1, 2}).Draw(t, "backoff_cfg")
		if c.Cfg == 1 && c.LongFail > 0 && c.MaxAttempts == 0 {
			c.Cfg = 0 // (no limit and no wait: the script's end is the only way out, keep those runs timed)
		}
		c.CancelK = rapid.IntRange(0, 4).Draw(t, "k")
		c.CancelOff = time.Duration(rapid.Int64Range(1, int64(700*time.Millisecond)).Draw(t, "off"))
		nd := rapid.IntRange(0, 4).Draw(t, "nd")
		for i := 0; i < nd; i++ {
			c.Dice = append(c.Dice, rapid.SampledFrom([]float64{0, 0.5, 1 - 1.0/(1<<53), 0.25}).Draw(t, "d"))
		}
		if rapid.IntRange(0, 3).Draw(t, "brk") == 0 {
			c.Breaker = rapid.IntRange(1, 4).Draw(t, "thr")
		}
		return c
	})
}

// ---- CircuitBreaker (state machine against a reference model) ----------------------------

type cbStep struct {
	Kind string // ok | fail | advance
	D    time.Duration
}
type cbCase struct {
	Threshold int
	Cooldown  time.Duration
	Steps     []cbStep
}

func checkBreaker(t *testing.T, c cbCase) (sig, msg string) {
	synctest.Test(t, func(t *testing.T) {
		cb := leader.NewCircuitBreaker(c.Threshold, c.Cooldown)
		// reference model
		open := false
		fails := 0
		var lastFail time.Time
		opened := 0
		for i, st := range c.Steps {
			if st.Kind == "advance" {
				time.Sleep(st.D)
				continue
			}
			invoked := false
			wantInvoke := !open || time.Since(lastFail) >= c.Cooldown
			err := cb.Call(func() error {
				invoked = true
				if st.D > 0 {
					time.Sleep(st.D) // the operation takes time: the breaker opens when it has failed, i.e. when it returns
				}
				if st.Kind == "fail" {
					return errTransientX
				}
				return nil
			})
			desc := fmt.Sprintf("breaker(threshold %d, cooldown %v) step %d (%s): invoked=%v err=%v; model: open=%v consecutive failures=%d since last failure %v; steps=%+v", c.Threshold, c.Cooldown, i, st.Kind, invoked, err, open, fails, time.Since(lastFail), c.Steps)
			if invoked != wantInvoke {
				if invoked {
					sig, msg = "C17 breaker-invoked-while-open", desc
				} else {
					sig, msg = "C17 breaker-rejected-while-closed-or-cooled-down", desc
				}
				return
			}
			if !invoked {
				if err == nil || err.Error() != "circuit breaker is open" {
					sig, msg = "C17 breaker-open-error-missing", desc
					return
				}
				continue
			}
			if st.Kind == "fail" {
				if err == nil {
					sig, msg = "C17 breaker-swallowed-error", desc
					return
				}
				fails++
				lastFail = time.Now()
				if fails >= c.Threshold {
					if !open {
						opened++
					}
					open = true
				}
			} else {
				if err != nil {
					sig, msg = "C17 breaker-error-on-success", desc
					return
				}
				fails = 0
				open = false
			}
		}
	})
	return
}

func genCbCase() *rapid.Generator[cbCase] {
	return rapid.Custom(func(t *rapid.T) cbCase {
		c := cbCase{Threshold: rapid.IntRange(1, 5).Draw(t, "threshold"), Cooldown: time.Duration(rapid.Int64Range(1, int64(10*time.Second)).Draw(t, "cooldown"))}
		n := rapid.IntRange(1, 30).Draw(t, "steps")
		for i := 0; i < n; i++ {
			switch rapid.IntRange(0, 5).Draw(t, "kind") {
			case 0, 1, 2:
				c.Steps = append(c.Steps, cbStep{Kind: "fail", D: rapid.SampledFrom([]time.Duration{0, 0, 1, c.Cooldown / 2, c.Cooldown, 2 * c.Cooldown}).Draw(t, "dur")})
			case 3:
				c.Steps = append(c.Steps, cbStep{Kind: "ok", D: rapid.SampledFrom([]time.Duration{0, 0, c.Cooldown / 2}).Draw(t, "dur")})
			default:
				d := rapid.SampledFrom([]time.Duration{c.Cooldown - 1, c.Cooldown, c.Cooldown + 1, c.Cooldown / 2, 1}).Draw(t, "adv")
				if d <= 0 {
					d = 1
				}
				c.Steps = append(c.Steps, cbStep{Kind: "advance", D: d})
			}
		}
		return c
	})
}

type c17Replay struct {
	Backoff *boCase    `json:"backoff,omitempty"`
	Retry   *retryCase `json:"retry,omitempty"`
	Breaker *cbCase    `json:"breaker,omitempty"`
}

func TestC17(t *testing.T) {
	r := report.New("C17")
	defer r.Write()
	hooked := true
	// is the jitter hook wired (overlay active)?
	leader.VerifRandHook = func() float64 { return 0 }
	a := leader.CalculateBackoff(leader.BackoffConfig{InitialBackoff: 1000, MaxBackoff: 1000, BackoffMultiplier: 1, Jitter: 1}, 0)
	leader.VerifRandHook = func() float64 { return 0.75 }
	b := leader.CalculateBackoff(leader.BackoffConfig{InitialBackoff: 1000, MaxBackoff: 1000, BackoffMultiplier: 1, Jitter: 1}, 0)
	leader.VerifRandHook = nil
	if !(a == 0 && b == 1500) {
		hooked = false
		r.Assume("jitter overlay inactive: dice unknown, only the jitter band is checked")
	}
	r.Rule = "(a) CalculateBackoff on generated configurations (initial 1ns-1h, cap 0-1y, multiplier 0.5-16, jitter 0-1, attempt 0-64 and huge values up to MaxInt, dice supplied through the jitter hook with extremes over-weighted) against an independent big-float computation of min(cap, initial*multiplier^n) and the exact formula with the known dice; (b) RetryWithBackoff under a virtual clock on generated scripts of outcomes (success / transient / permanent), MaxAttempts 0-6 (a fifth of the cases: 7-300 with runs of MaxAttempts-2 .. MaxAttempts+40 or 300 consecutive transient failures), backoff configuration {50ms..400ms x2 jitter 0.5, the zero value (no wait), jitter 0}, cancellation never / before the first call / during invocation k / during wait k / at the very instant wait k ends, optional circuit breaker, against a reference run (invocation count, result class, exact waits) and directly: no invocation begins with the context already cancelled; (c) CircuitBreaker as a state machine (ok / fail operations that take 0 .. 2 x cooldown of virtual time / advance by cooldown-1ns, cooldown, cooldown+1ns) against a closed/open model; (d, simulator part) every acquisition round observed in simulated elections. Non-trivial = attempt>=1 with the cap reached or a dice extreme; scripts with >=2 invocations; breaker histories that open at least once; distinct by hash of the case."
	r.Assume("backoff domain: positive initial backoff, multiplier in [0.5,16], jitter in [0,1], caps up to one year (jittered value fits int64); tolerance 16ns + 1e-9 relative for float64 rounding")
	var rp c17Replay
	if is, err := report.LoadReplay(&rp); is {
		if err != nil {
			t.Fatal(err)
		}
		var sig, msg string
		switch {
		case rp.Backoff != nil:
			sig, msg = checkBackoff(*rp.Backoff, hooked)
		case rp.Retry != nil:
			sig, msg = checkRetry(t, *rp.Retry, hooked)
		case rp.Breaker != nil:
			sig, msg = checkBreaker(t, *rp.Breaker)
		}
		if sig != "" {
			r.Violation(report.Violation{Signature: sig, Message: msg})
			t.Error(msg)
		}
		return
	}
	fail := func(sig, msg string, rp c17Replay, size int) string {
		if sig == "" || r.IsKnown(sig) {
			return ""
		}
		r.Violation(report.Violation{Signature: sig, Message: msg, Replay: r.SaveReplay(rp), Size: size})
		return msg
	}
	t.Run("backoff", func(t *testing.T) {
		rapid.Check(t, func(rt *rapid.T) {
			c := genBoCase().Draw(rt, "c")
			base := refBase(c)
			nt := c.Attempt >= 1 && (base >= float64(c.Max) || c.Dice == 0 || c.Dice > 0.999999)
			r.Case(report.Hash(c), nt, "backoff")
			if nt {
				r.Sample("backoff", map[string]any{"backoff_case": c})
			}
			sig, msg := checkBackoff(c, hooked)
			if m := fail(sig, msg, c17Replay{Backoff: &c}, 1); m != "" {
				rt.Fatalf("%s", m)
			}
		})
	})
	t.Run("retry", func(t *testing.T) {
		rapid.Check(t, func(rt *rapid.T) {
			c := genRetryCase().Draw(rt, "c")
			sig, msg := checkRetry(t, c, hooked)
			nt := false
			k := 0
			for _, o := range c.Script {
				k++
				if o != 1 {
					break
				}
			}
			nt = k >= 2 && c.CancelMode != 1
			r.Case(report.Hash(c), nt, "retry")
			if nt {
				r.Sample("retry", map[string]any{"retry_case": c})
			}
			if m := fail(sig, msg, c17Replay{Retry: &c}, len(c.Script)+1); m != "" {
				rt.Fatalf("%s", m)
			}
		})
	})
	t.Run("breaker", func(t *testing.T) {
		rapid.Check(t, func(rt *rapid.T) {
			c := genCbCase().Draw(rt, "c")
			sig, msg := checkBreaker(t, c)
			run, opens := 0, false
			for _, s := range c.Steps {
				if s.Kind == "fail" {
					run++
					if run >= c.Threshold {
						opens = true
					}
				} else if s.Kind == "ok" {
					run = 0
				}
			}
			r.Case(report.Hash(c), opens, "breaker")
			if opens {
				r.Sample("breaker", map[string]any{"breaker_case": c})
			}
			if m := fail(sig, msg, c17Replay{Breaker: &c}, len(c.Steps)); m != "" {
				rt.Fatalf("%s", m)
			}
		})
	})
}
