// Package refkv is an executable reference model of one JetStream KV bucket as
// seen through nats.go v1.47 (and therefore through the library's adapter).
// It is validated against a real embedded nats-server by the C14 check and is
// the store every simulated election runs against.
//
// Semantics (DESIGN.md 3.6): one bucket-wide sequence; per key the latest
// stored message (value or delete marker); bucket MaxAge (TTL) after which a
// message silently disappears; revision-checked writes; watchers that receive
// every later change of their key in sequence order, deletions as empty values,
// nothing on expiry, after an initial "latest message, then nil marker".
package refkv

import (
	"fmt"
	"sync"
	"time"

	"github.com/nats-io/nats.go"
)

// Version is one message of a key: a value or a delete marker.
type Version struct {
	Key       string
	Rev       uint64
	Value     []byte
	Tomb      bool
	WrittenAt time.Time
	Actor     string // who wrote it (harness bookkeeping, not visible to clients)
	Op        string // create | update | delete | put
	PrevRev   uint64 // revision of the stored message it replaced (0 = none)
	PrevLive  bool   // whether that message was a live value at apply time
	Expected  uint64 // the revision the writer presented (update), 0 otherwise
}

// Event is what a watcher receives. Marker is the nil "end of initial data".
type Event struct {
	At     time.Time // when the change happened (zero for the initial value / marker of a new watcher)
	Marker bool
	Key    string
	Value  []byte
	Rev    uint64
	Delete bool
}

type Store struct {
	mu       sync.Mutex
	TTL      time.Duration
	Now      func() time.Time
	seq      uint64
	latest   map[string]*Version
	watchers map[string][]*Watcher
	History  []*Version
}

func New(ttl time.Duration, now func() time.Time) *Store {
	if now == nil {
		now = time.Now
	}
	return &Store{TTL: ttl, Now: now, latest: map[string]*Version{}, watchers: map[string][]*Watcher{}}
}

// ExpiresAt returns when v stops being stored (zero time: never).
func (s *Store) ExpiresAt(v *Version) time.Time {
	if s.TTL <= 0 {
		return time.Time{}
	}
	return v.WrittenAt.Add(s.TTL)
}

func (s *Store) stored(v *Version, now time.Time) bool {
	if v == nil {
		return false
	}
	if s.TTL > 0 && !now.Before(v.WrittenAt.Add(s.TTL)) {
		return false
	}
	return true
}

// Stored returns the latest stored message of key (value or delete marker), or nil.
func (s *Store) Stored(key string) *Version {
	s.mu.Lock()
	defer s.mu.Unlock()
	v := s.latest[key]
	if s.stored(v, s.Now()) {
		return v
	}
	return nil
}

// Live returns the live value of key or nil.
func (s *Store) Live(key string) *Version {
	v := s.Stored(key)
	if v != nil && !v.Tomb {
		return v
	}
	return nil
}

func (s *Store) Seq() uint64 {
	s.mu.Lock()
	defer s.mu.Unlock()
	return s.seq
}

// ConflictError is the error nats.go returns for a failed revision-checked write:
// *nats.APIError, code 400, err_code 10071, "wrong last sequence: <actual>".
func ConflictError(last uint64) error {
	return &nats.APIError{Code: 400, ErrorCode: nats.JSErrCodeStreamWrongLastSequence, Description: fmt.Sprintf("wrong last sequence: %d", last)}
}

// KeyExistsError is what kv.Create returns on an existing key.
func KeyExistsError(last uint64) error {
	return fmt.Errorf("%w: %s", ConflictError(last), "key exists")
}

func (s *Store) write(key string, value []byte, tomb bool, actor, op string, prev *Version, expected uint64, now time.Time) *Version {
	s.seq++
	v := &Version{Key: key, Rev: s.seq, Value: append([]byte(nil), value...), Tomb: tomb, WrittenAt: now, Actor: actor, Op: op, Expected: expected}
	if prev != nil {
		v.PrevRev = prev.Rev
		v.PrevLive = !prev.Tomb
	}
	s.latest[key] = v
	s.History = append(s.History, v)
	ev := Event{At: now, Key: key, Value: v.Value, Rev: v.Rev, Delete: tomb}
	if tomb {
		ev.Value = nil
	}
	for _, w := range s.watchers[key] {
		w.push(ev)
	}
	return v
}

// Create: succeeds iff the key has no live value (never written, expired, or
// latest message is a delete marker).
func (s *Store) Create(key string, value []byte, actor string) (*Version, error) {
	s.mu.Lock()
	defer s.mu.Unlock()
	now := s.Now()
	cur := s.latest[key]
	if !s.stored(cur, now) {
		cur = nil
	}
	if cur != nil && !cur.Tomb {
		return nil, KeyExistsError(cur.Rev)
	}
	return s.write(key, value, false, actor, "create", cur, 0, now), nil
}

// Update: succeeds iff rev is the revision of the latest stored message of the
// key (value or delete marker), or 0 when nothing is stored.
func (s *Store) Update(key string, value []byte, rev uint64, actor string) (*Version, error) {
	s.mu.Lock()
	defer s.mu.Unlock()
	now := s.Now()
	cur := s.latest[key]
	if !s.stored(cur, now) {
		cur = nil
	}
	var last uint64
	if cur != nil {
		last = cur.Rev
	}
	if rev != last {
		return nil, ConflictError(last)
	}
	return s.write(key, value, false, actor, "update", cur, rev, now), nil
}

// Put is the unconditional write used by the simulated outside party.
func (s *Store) Put(key string, value []byte, actor string) *Version {
	s.mu.Lock()
	defer s.mu.Unlock()
	now := s.Now()
	cur := s.latest[key]
	if !s.stored(cur, now) {
		cur = nil
	}
	return s.write(key, value, false, actor, "put", cur, 0, now)
}

func (s *Store) Get(key string) (*Version, error) {
	s.mu.Lock()
	defer s.mu.Unlock()
	cur := s.latest[key]
	if !s.stored(cur, s.Now()) || cur.Tomb {
		return nil, nats.ErrKeyNotFound
	}
	return cur, nil
}

// Delete always succeeds and stores a delete marker.
func (s *Store) Delete(key string, actor string) *Version {
	s.mu.Lock()
	defer s.mu.Unlock()
	now := s.Now()
	cur := s.latest[key]
	if !s.stored(cur, now) {
		cur = nil
	}
	return s.write(key, nil, true, actor, "delete", cur, 0, now)
}

// DeleteRev is Delete with the KV client's LastRevision option: it is applied only if rev is the sequence of
// the key's latest stored message (the same rule as Update).
func (s *Store) DeleteRev(key string, rev uint64, actor string) (*Version, error) {
	s.mu.Lock()
	defer s.mu.Unlock()
	now := s.Now()
	cur := s.latest[key]
	if !s.stored(cur, now) {
		cur = nil
	}
	var last uint64
	if cur != nil {
		last = cur.Rev
	}
	// (revision 0 means "no expectation" to the client: the delete is then unconditional)
	if rev != 0 && rev != last {
		return nil, ConflictError(last)
	}
	return s.write(key, nil, true, actor, "delete", cur, rev, now), nil
}

// ---- watchers ------------------------------------------------------------------

type Watcher struct {
	s       *Store
	key     string
	mu      sync.Mutex
	queue   []Event
	notify  chan struct{}
	stopped bool
	Pushed  int
}

func (s *Store) Watch(key string) *Watcher {
	s.mu.Lock()
	defer s.mu.Unlock()
	w := &Watcher{s: s, key: key, notify: make(chan struct{}, 1)}
	cur := s.latest[key]
	if s.stored(cur, s.Now()) {
		ev := Event{Key: key, Value: cur.Value, Rev: cur.Rev, Delete: cur.Tomb}
		if cur.Tomb {
			ev.Value = nil
		}
		w.push(ev)
	}
	w.push(Event{Marker: true})
	s.watchers[key] = append(s.watchers[key], w)
	return w
}

func (w *Watcher) push(ev Event) {
	w.mu.Lock()
	if !w.stopped {
		w.queue = append(w.queue, ev)
		w.Pushed++
	}
	w.mu.Unlock()
	select {
	case w.notify <- struct{}{}:
	default:
	}
}

// TryNext pops the next queued event without blocking.
func (w *Watcher) TryNext() (Event, bool) {
	w.mu.Lock()
	defer w.mu.Unlock()
	if len(w.queue) == 0 {
		return Event{}, false
	}
	ev := w.queue[0]
	w.queue = w.queue[1:]
	return ev, true
}

// Ready is signalled (at least once) after events were queued.
func (w *Watcher) Ready() <-chan struct{} { return w.notify }

func (w *Watcher) Stop() {
	w.mu.Lock()
	w.stopped = true
	w.queue = nil
	w.mu.Unlock()
	s := w.s
	s.mu.Lock()
	ws := s.watchers[w.key]
	for i, x := range ws {
		if x == w {
			s.watchers[w.key] = append(append([]*Watcher(nil), ws[:i]...), ws[i+1:]...)
			break
		}
	}
	s.mu.Unlock()
}
