// Package report accumulates what a check actually explored and writes it as
// JSON for the driver (/verif/check), which turns it into evidence/<id>.json.
package report

import (
	"crypto/sha256"
	"encoding/hex"
	"encoding/json"
	"fmt"
	"os"
	"strings"
	"sort"
	"strconv"
	"sync"
	"time"
)

type Violation struct {
	Signature string `json:"signature"`
	Message   string `json:"message"`
	Replay    string `json:"replay,omitempty"`
	Size      int    `json:"size,omitempty"` // size of the failing input; the smallest one per signature is kept
}

type Known struct {
	Property  string `json:"property"`
	Status    string `json:"status"` // "known" | "fixed"
	Signature string `json:"signature"`
	What      string `json:"what"`
	Commit    string `json:"commit,omitempty"`
}

type R struct {
	mu           sync.Mutex
	Property     string
	start        time.Time
	evaluations  int
	nontriv      map[string]struct{}
	classes      map[string]int
	samples      []any
	sampleKeys   map[string]bool
	violations   []Violation
	knownHits    map[string]int
	premiseFalse int
	assumptions  []string
	extra        map[string]any
	known        map[string]bool
	Rule         string
	Exhaustive   bool
	MaxSamples   int
}

func New(property string) *R {
	r := &R{Property: property, start: time.Now(), nontriv: map[string]struct{}{}, classes: map[string]int{},
		knownHits: map[string]int{}, extra: map[string]any{}, known: map[string]bool{}, sampleKeys: map[string]bool{}, MaxSamples: 5}
	if p := os.Getenv("VERIF_KNOWN"); p != "" {
		if b, err := os.ReadFile(p); err == nil {
			var ks []Known
			if json.Unmarshal(b, &ks) == nil {
				for _, k := range ks {
					if k.Status == "known" && k.Property == property {
						r.known[k.Signature] = true
					}
				}
			}
		}
	}
	return r
}

func Hash(v any) string {
	b, _ := json.Marshal(v)
	s := sha256.Sum256(b)
	return hex.EncodeToString(s[:8])
}

// Case records one executed case. hash identifies the case (distinctness),
// nontrivial is the property's stated rule evaluated on it.
func (r *R) Case(hash string, nontrivial bool, classes ...string) {
	r.mu.Lock()
	defer r.mu.Unlock()
	r.evaluations++
	if nontrivial {
		r.nontriv[hash] = struct{}{}
	}
	for _, c := range classes {
		r.classes[c]++
	}
}

func (r *R) Class(c string, n int) {
	r.mu.Lock()
	defer r.mu.Unlock()
	r.classes[c] += n
}

func (r *R) PremiseFalse() {
	r.mu.Lock()
	defer r.mu.Unlock()
	r.premiseFalse++
}

// Sample keeps up to MaxSamples cases, at most one per key (so that samples
// show different shapes).
func (r *R) Sample(key string, v any) {
	r.mu.Lock()
	defer r.mu.Unlock()
	if len(r.samples) >= r.MaxSamples || r.sampleKeys[key] {
		return
	}
	r.sampleKeys[key] = true
	r.samples = append(r.samples, v)
}

func (r *R) Assume(s string) {
	r.mu.Lock()
	defer r.mu.Unlock()
	for _, a := range r.assumptions {
		if a == s {
			return
		}
	}
	r.assumptions = append(r.assumptions, s)
}

func (r *R) Extra(k string, v any) {
	r.mu.Lock()
	defer r.mu.Unlock()
	r.extra[k] = v
}

// IsKnown reports whether sig is listed as a known (unrepaired) finding; if so
// the hit is counted and the caller must not fail the case on it.
func (r *R) IsKnown(sig string) bool {
	r.mu.Lock()
	defer r.mu.Unlock()
	if r.known[sig] {
		r.knownHits[sig]++
		return true
	}
	return false
}

func (r *R) Violation(v Violation) {
	r.mu.Lock()
	defer r.mu.Unlock()
	for i, o := range r.violations {
		if o.Signature == v.Signature {
			if v.Size > 0 && (o.Size == 0 || v.Size < o.Size) {
				r.violations[i] = v
			}
			return
		}
	}
	if len(r.violations) < 50 {
		r.violations = append(r.violations, v)
	}
}

func (r *R) NumViolations() int {
	r.mu.Lock()
	defer r.mu.Unlock()
	return len(r.violations)
}

type Out struct {
	Property     string         `json:"property"`
	Evaluations  int            `json:"evaluations"`
	Nontrivial   []string       `json:"nontrivial_hashes"`
	Classes      map[string]int `json:"classes"`
	Samples      []any          `json:"samples"`
	Violations   []Violation    `json:"violations"`
	KnownHits    map[string]int `json:"known_hits"`
	PremiseFalse int            `json:"premise_false"`
	Assumptions  []string       `json:"assumptions"`
	Extra        map[string]any `json:"extra"`
	Rule         string         `json:"rule"`
	Exhaustive   bool           `json:"exhaustive"`
	WallS        float64        `json:"wall_s"`
}

// Write stores the result where the driver asked for it (VERIF_OUT). Without
// VERIF_OUT (plain `go test`) it prints a one-line summary.
func (r *R) Write() {
	r.mu.Lock()
	defer r.mu.Unlock()
	hs := make([]string, 0, len(r.nontriv))
	for h := range r.nontriv {
		hs = append(hs, h)
	}
	sort.Strings(hs)
	o := Out{Property: r.Property, Evaluations: r.evaluations, Nontrivial: hs, Classes: r.classes, Samples: r.samples,
		Violations: r.violations, KnownHits: r.knownHits, PremiseFalse: r.premiseFalse, Assumptions: r.assumptions,
		Extra: r.extra, Rule: r.Rule, Exhaustive: r.Exhaustive, WallS: time.Since(r.start).Seconds()}
	p := os.Getenv("VERIF_OUT")
	if p == "" {
		fmt.Printf("[report %s] evaluations=%d nontrivial=%d violations=%d known=%v classes=%v\n", r.Property, o.Evaluations, len(hs), len(o.Violations), o.KnownHits, o.Classes)
		return
	}
	b, _ := json.MarshalIndent(o, "", " ")
	_ = os.WriteFile(p, b, 0o644)
}

func EnvInt(name string, def int) int {
	if s := os.Getenv(name); s != "" {
		if n, err := strconv.Atoi(s); err == nil {
			return n
		}
	}
	return def
}

// Shard returns (k, n) from VERIF_SHARD="k/n" (default 0/1).
func Shard() (int, int) {
	s := os.Getenv("VERIF_SHARD")
	var k, n int
	if _, err := fmt.Sscanf(s, "%d/%d", &k, &n); err != nil || n <= 0 {
		return 0, 1
	}
	return k, n
}

func Tier() string {
	if os.Getenv("VERIF_TIER") == "thorough" {
		return "thorough"
	}
	return "quick"
}

// SaveReplay writes a failing input as a replay file and returns its path.
func (r *R) SaveReplay(v any) string {
	dir := os.Getenv("VERIF_REPLAY_DIR")
	if dir == "" {
		dir = os.TempDir()
	}
	_ = os.MkdirAll(dir, 0o755)
	b, _ := json.MarshalIndent(map[string]any{"property": r.Property, "input": v}, "", " ")
	p := fmt.Sprintf("%s/%s-%s.json", dir, r.Property, Hash(v))
	_ = os.WriteFile(p, b, 0o644)
	return p
}

// LoadReplay decodes the "input" member of a replay file named by VERIF_REPLAY
// into v. It returns false when no replay was requested.
func LoadReplay(v any) (bool, error) {
	p := os.Getenv("VERIF_REPLAY")
	if p == "" {
		return false, nil
	}
	b, err := os.ReadFile(p)
	if err != nil {
		return true, err
	}
	var w struct {
		Input json.RawMessage `json:"input"`
	}
	if err := json.Unmarshal(b, &w); err != nil {
		return true, err
	}
	if len(w.Input) == 0 {
		return true, fmt.Errorf("replay file %s has no input member", p)
	}
	return true, json.Unmarshal(w.Input, v)
}

// RegressionInputs returns the "input" members of the replay files kept under
// <VERIF_REGRESS_DIR or /verif/regressions>/<prop>/*.json, by file name.
func RegressionInputs(prop string) map[string]json.RawMessage {
	dir := os.Getenv("VERIF_REGRESS_DIR")
	if dir == "" {
		dir = "/verif/regressions"
	}
	out := map[string]json.RawMessage{}
	ents, err := os.ReadDir(dir + "/" + prop)
	if err != nil {
		return out
	}
	for _, e := range ents {
		if !strings.HasSuffix(e.Name(), ".json") {
			continue
		}
		b, err := os.ReadFile(dir + "/" + prop + "/" + e.Name())
		if err != nil {
			continue
		}
		var w struct {
			Input json.RawMessage `json:"input"`
		}
		if json.Unmarshal(b, &w) == nil && len(w.Input) > 0 {
			out[e.Name()] = w.Input
		}
	}
	return out
}
