package natsdiff

import (
	"context"
	"errors"
	"fmt"
	"testing"
	"time"

	"github.com/ali-assar/NATS-Leader-Election/leader"
	"github.com/nats-io/nats.go"
)

func TestProbe(t *testing.T) {
	ctx, cancel := context.WithCancel(context.Background())
	defer cancel()
	s, err := leader.StartEmbeddedNATSServer(ctx)
	if err != nil {
		t.Fatal(err)
	}
	defer leader.StopEmbeddedNATSServer(s)
	nc, err := nats.Connect(s.ClientURL())
	if err != nil {
		t.Fatal(err)
	}
	defer nc.Close()
	js, _ := nc.JetStream()
	_, err = js.CreateKeyValue(&nats.KeyValueConfig{Bucket: "b", TTL: 300 * time.Millisecond, Storage: nats.MemoryStorage})
	if err != nil {
		t.Fatal(err)
	}
	kv, err := leader.VerifNewNATSKeyValue(nc, "b")
	if err != nil {
		t.Fatal(err)
	}
	show := func(what string, rev uint64, err error) {
		var ae *nats.APIError
		fmt.Printf("%-40s rev=%d err=%v | type=%T isKeyExists=%v isKeyNotFound=%v isKeyDeleted=%v asAPI=%v", what, rev, err, err, errors.Is(err, nats.ErrKeyExists), errors.Is(err, nats.ErrKeyNotFound), errors.Is(err, nats.ErrKeyDeleted), errors.As(err, &ae))
		if ae != nil {
			fmt.Printf(" code=%d errcode=%d desc=%q", ae.Code, ae.ErrorCode, ae.Description)
		}
		fmt.Printf(" perm=%v trans=%v\n", leader.IsPermanentError(err), leader.IsTransientError(err))
	}
	r, err := kv.Create("k", []byte("v1"))
	show("create fresh", r, err)
	r, err = kv.Create("k", []byte("v2"))
	show("create existing", r, err)
	r, err = kv.Update("k", []byte("v2"), 99)
	show("update stale rev", r, err)
	r, err = kv.Update("k", []byte("v2"), 1)
	show("update ok", r, err)
	e, err := kv.Get("k")
	fmt.Println("get", e.Revision(), string(e.Value()), err)
	err = kv.Delete("k")
	show("delete", 0, err)
	e, err = kv.Get("k")
	show("get deleted", 0, err)
	fmt.Println("  entry nil:", e == nil)
	r, err = kv.Update("k", []byte("v3"), 2)
	show("update on deleted w/ old rev", r, err)
	r, err = kv.Update("k", []byte("v3"), 3)
	show("update on deleted w/ tombstone rev", r, err)
	err = kv.Delete("k")
	r, err = kv.Create("k", []byte("v4"))
	show("create after delete", r, err)
	time.Sleep(500 * time.Millisecond)
	e, err = kv.Get("k")
	show("get expired", 0, err)
	r, err = kv.Update("k", []byte("v5"), 6)
	show("update expired with last rev", r, err)
	r, err = kv.Update("k", []byte("v5"), 0)
	show("update expired with rev 0", r, err)
	err = kv.Delete("nokey")
	show("delete never-written", 0, err)
	r, err = kv.Create("nokey", []byte("x"))
	show("create on tombstone-only", r, err)
	r, err = kv.Create("bad key!", []byte("x"))
	show("create invalid key", r, err)
	e, err = kv.Get("never")
	show("get never", 0, err)
	r, err = kv.Create("empty", []byte{})
	show("create empty value", r, err)
	e, err = kv.Get("empty")
	fmt.Println("get empty:", e != nil, err)
	if e != nil {
		fmt.Println(" len", len(e.Value()), e.Revision())
	}
	r, err = kv.Create("empty", []byte("z"))
	show("create over empty value", r, err)
	nc.Close()
	r, err = kv.Update("k", []byte("v5"), 0)
	show("update on closed conn", r, err)
	_, err = kv.Get("k")
	show("get on closed conn", 0, err)
	_, err = kv.Watch("k")
	show("watch on closed conn", 0, err)
}
