package natsdiff

import (
	"context"
	"encoding/json"
	"errors"
	"fmt"
	"os"
	"runtime"
	"sort"
	"strings"
	"sync"
	"sync/atomic"
	"testing"
	"time"

	"github.com/ali-assar/NATS-Leader-Election/leader"
	"github.com/nats-io/nats-server/v2/server"
	"github.com/nats-io/nats.go"
	"pgregory.net/rapid"

	"verif/harness/refkv"
	"verif/harness/report"
)

const (
	ttl = 200 * time.Millisecond
	// Operations keep away from the interval in which the server may or may not have removed a message:
	// nats-server expires a message when its age timer fires; the first timer is exact, but a re-armed
	// timer is rounded up to 250ms, so a message lives between MaxAge and MaxAge + ~250ms (measured).
	marginBefore = 60 * time.Millisecond
)

// marginAfter: how long after MaxAge a message may still be there. 330ms on a machine that is not
// overloaded (quick tier: 2 shards); the thorough tier runs 8 servers and 8 x 2 test threads side by side and
// has seen the server's age timer fire more than 330ms late, so it keeps a wider berth.
var marginAfter = func() time.Duration {
	if os.Getenv("VERIF_TIER") == "thorough" {
		return 900 * time.Millisecond
	}
	return 330 * time.Millisecond
}()

var (
	srvOnce sync.Once
	srv     *server.Server
	conn    *nats.Conn
	srvErr  error
	bucketN atomic.Int64
)

func startServer() {
	srvOnce.Do(func() {
		srv, srvErr = leader.StartEmbeddedNATSServer(context.Background())
		if srvErr != nil {
			return
		}
		conn, srvErr = nats.Connect(srv.ClientURL())
	})
}

// Step is one operation of a sequence (data, so that a failing sequence can be replayed).
type Step struct {
	Op    string `json:"op"` // create update get delete sleepexpire watch recv stopwatch updatescalls
	Key   int    `json:"key"`
	Value []byte `json:"value,omitempty"`
	Rev   string `json:"rev,omitempty"` // latest | stale | future | zero
	W     int    `json:"w,omitempty"`   // watcher index
}

type liveWatcher struct {
	key   string
	real  leader.Watcher
	model *refkv.Watcher
	first <-chan leader.Entry
	got   int
}

// runSequence executes the steps on a fresh bucket through the library's adapter and on the reference
// model, comparing after every step. Returns (signature, message) of the first disagreement.
func runSequence(steps []Step) (sig, msg string, stats map[string]int) {
	stats = map[string]int{}
	startServer()
	if srvErr != nil {
		return "HARNESS", "embedded server: " + srvErr.Error(), stats
	}
	js, _ := conn.JetStream()
	bucket := fmt.Sprintf("c14-%d-%d", os.Getpid(), bucketN.Add(1))
	if _, err := js.CreateKeyValue(&nats.KeyValueConfig{Bucket: bucket, TTL: ttl, Storage: nats.MemoryStorage, History: 64}); err != nil {
		return "HARNESS", "create bucket: " + err.Error(), stats
	}
	defer js.DeleteKeyValue(bucket)
	kv, err := leader.VerifNewNATSKeyValue(conn, bucket)
	if err != nil {
		return "HARNESS", "adapter: " + err.Error(), stats
	}
	model := refkv.New(ttl, time.Now)
	keys := []string{"k0", "k1", "grp.with-dash_2"}
	lastWrite := map[string]time.Time{}
	var maxRev uint64
	var watchers []*liveWatcher
	baseline := adapterGoroutines()
	stopAll := func() {
		for _, w := range watchers {
			if w.real != nil {
				w.real.Stop()
				w.real = nil
			}
		}
	}
	defer stopAll()
	fail := func(i int, s, m string) (string, string, map[string]int) {
		return s, fmt.Sprintf("step %d %+v: %s", i, steps[i], m), stats
	}
	// keep away from expiry edges: if some key's latest message is within the margin of its expiry, wait it out
	settle := func() {
		for {
			var wait time.Duration
			for _, t0 := range lastWrite {
				age := time.Since(t0)
				if age > ttl-marginBefore && age < ttl+marginAfter {
					if w := ttl + marginAfter - age; w > wait {
						wait = w
					}
				}
			}
			if wait == 0 {
				return
			}
			time.Sleep(wait)
		}
	}
	sameErr := func(real, want error) string {
		if (real == nil) != (want == nil) {
			return fmt.Sprintf("adapter error %v, model error %v", real, want)
		}
		if real == nil {
			return ""
		}
		if real.Error() != want.Error() {
			return fmt.Sprintf("adapter error text %q, model %q", real.Error(), want.Error())
		}
		for _, sentinel := range []error{nats.ErrKeyExists, nats.ErrKeyNotFound, nats.ErrKeyDeleted} {
			if errors.Is(real, sentinel) != errors.Is(want, sentinel) {
				return fmt.Sprintf("errors.Is(%v): adapter %v, model %v", sentinel, errors.Is(real, sentinel), errors.Is(want, sentinel))
			}
		}
		var a, b *nats.APIError
		if errors.As(real, &a) != errors.As(want, &b) {
			return "errors.As(*nats.APIError) differs"
		}
		if a != nil && (a.ErrorCode != b.ErrorCode || a.Code != b.Code) {
			return fmt.Sprintf("API error code %d/%d, model %d/%d", a.Code, a.ErrorCode, b.Code, b.ErrorCode)
		}
		if leader.IsPermanentError(real) != leader.IsPermanentError(want) {
			return "classification differs"
		}
		return ""
	}
	for i, st := range steps {
		key := keys[st.Key%len(keys)]
		settle()
		switch st.Op {
		case "create":
			rev, err := kv.Create(key, st.Value)
			mv, merr := model.Create(key, st.Value, "t")
			if d := sameErr(err, merr); d != "" {
				return fail(i, "C14 create-outcome-differs", d)
			}
			if err == nil {
				stats["create-ok"]++
				if mv.PrevRev != 0 || len(model.History) > 1 {
					stats["create-after-delete-or-expiry"]++
				}
				if rev != mv.Rev {
					return fail(i, "C14 revision-differs", fmt.Sprintf("adapter revision %d, model %d", rev, mv.Rev))
				}
				if rev <= maxRev {
					return fail(i, "C14 revision-not-increasing", fmt.Sprintf("revision %d after %d", rev, maxRev))
				}
				maxRev = rev
				lastWrite[key] = time.Now()
			} else {
				stats["create-rejected"]++
			}
		case "update":
			var rev uint64
			cur := model.Stored(key)
			switch st.Rev {
			case "latest":
				if cur != nil {
					rev = cur.Rev
				}
			case "stale":
				if cur != nil && cur.Rev > 1 {
					rev = cur.Rev - 1
				} else {
					rev = 9999
				}
				stats["update-stale"]++
			case "future":
				rev = maxRev + 7
			}
			got, err := kv.Update(key, st.Value, rev)
			mv, merr := model.Update(key, st.Value, rev, "t")
			if d := sameErr(err, merr); d != "" {
				return fail(i, "C14 update-outcome-differs", fmt.Sprintf("Update(expected %d): %s", rev, d))
			}
			if err == nil {
				stats["update-ok"]++
				if got != mv.Rev {
					return fail(i, "C14 revision-differs", fmt.Sprintf("adapter revision %d, model %d", got, mv.Rev))
				}
				if got <= maxRev {
					return fail(i, "C14 revision-not-increasing", fmt.Sprintf("revision %d after %d", got, maxRev))
				}
				maxRev = got
				lastWrite[key] = time.Now()
			} else {
				stats["update-rejected"]++
			}
		case "get":
			e, err := kv.Get(key)
			mv, merr := model.Get(key)
			if d := sameErr(err, merr); d != "" {
				return fail(i, "C14 get-outcome-differs", d)
			}
			if err == nil {
				if e == nil {
					return fail(i, "C14 get-nil-entry-without-error", "")
				}
				if string(e.Value()) != string(mv.Value) || e.Revision() != mv.Rev || e.Key() != key {
					return fail(i, "C14 get-returns-different-value", fmt.Sprintf("adapter (%q, rev %d), model (%q, rev %d)", e.Value(), e.Revision(), mv.Value, mv.Rev))
				}
				stats["get-ok"]++
			} else {
				stats["get-miss"]++
			}
		case "delete":
			err := kv.Delete(key)
			mv := model.Delete(key, "t")
			if err != nil {
				return fail(i, "C14 delete-failed", err.Error())
			}
			maxRev = mv.Rev
			lastWrite[key] = time.Now()
			stats["delete"]++
		case "deleteraced":
			// Delete while another client (a second adapter handle on the same connection) is refreshing the key
			// as fast as it can, each refresh against the revision of its previous one: Delete is unconditional, so
			// it succeeds whatever lands in between; every refresh that succeeded came before it, the first one
			// after it is refused (the delete marker has a revision of its own) and ends the chain.
			cur := model.Live(key)
			if cur == nil {
				stats["deleteraced-skipped-not-live"]++
				break
			}
			// (not while a watch of this key is open: the bucket keeps one revision per key, and a watcher that
			// lags behind a burst of overwrites is served the newer revision only - which of the refreshes it
			// sees is then up to the server's timing, and the model cannot say)
			watched := false
			for _, w := range watchers {
				if w.real != nil && w.key == key {
					watched = true
				}
			}
			if watched {
				stats["deleteraced-skipped-key-watched"]++
				break
			}
			kv2, err2 := leader.VerifNewNATSKeyValue(conn, bucket)
			if err2 != nil {
				return fail(i, "C14 second-handle-failed", err2.Error())
			}
			okUpdates := make(chan int, 1)
			started := make(chan struct{})
			go func() {
				rev, n := cur.Rev, 0
				close(started)
				for j := 0; j < 200; j++ {
					r, e := kv2.Update(key, []byte("raced"), rev)
					if e != nil {
						break
					}
					rev, n = r, n+1
				}
				okUpdates <- n
			}()
			<-started
			time.Sleep(time.Duration(st.W) * 300 * time.Microsecond)
			err := kv.Delete(key)
			n := <-okUpdates
			for j := 0; j < n; j++ {
				c := model.Live(key)
				if c == nil {
					return fail(i, "C14 harness-model-out-of-step", "model lost the key during the raced refreshes")
				}
				model.Update(key, []byte("raced"), c.Rev, "t2")
			}
			mv := model.Delete(key, "t")
			if err != nil {
				return fail(i, "C14 delete-failed", fmt.Sprintf("Delete of a live key failed while another client was refreshing it (%d refreshes landed): %v", n, err))
			}
			maxRev = mv.Rev
			lastWrite[key] = time.Now()
			stats["delete-raced"]++
			if n > 0 {
				stats["delete-raced-with-refreshes-landed"]++
			}
			if e, gerr := kv.Get(key); gerr == nil && e != nil {
				return fail(i, "C14 get-outcome-differs", fmt.Sprintf("key live (rev %d) after a Delete that returned nil", e.Revision()))
			}
		case "deleterev":
			// the revision-checked delete a graceful shutdown uses (leader.RevisionDeleter)
			var rev uint64
			cur := model.Stored(key)
			switch st.Rev {
			case "latest":
				if cur != nil {
					rev = cur.Rev
				}
			case "stale":
				if cur != nil && cur.Rev > 1 {
					rev = cur.Rev - 1
				} else {
					rev = 9999
				}
			case "future":
				rev = maxRev + 7
			}
			rd, ok := kv.(leader.RevisionDeleter)
			if !ok {
				return fail(i, "C14 adapter-has-no-revision-checked-delete", "")
			}
			err := rd.DeleteRevision(key, rev)
			mv, merr := model.DeleteRev(key, rev, "t")
			if d := sameErr(err, merr); d != "" {
				return fail(i, "C14 deleterev-outcome-differs", fmt.Sprintf("DeleteRevision(expected %d): %s", rev, d))
			}
			if err == nil {
				maxRev = mv.Rev
				lastWrite[key] = time.Now()
				stats["deleterev-ok"]++
			} else {
				stats["deleterev-rejected"]++
			}
		case "sleepexpire":
			time.Sleep(ttl + marginAfter)
			stats["expiry"]++
		case "watch":
			w, err := kv.Watch(key)
			if err != nil {
				return fail(i, "C14 watch-failed", err.Error())
			}
			lw := &liveWatcher{key: key, real: w, model: model.Watch(key)}
			// (Updates() is not called here: a watcher may be stopped without ever having been read)
			watchers = append(watchers, lw)
			stats["watch"]++
		case "recv":
			if len(watchers) == 0 {
				continue
			}
			lw := watchers[st.W%len(watchers)]
			if lw.real == nil {
				continue
			}
			// everything the model has queued must arrive, in order, exactly once; then nothing more
			for {
				want, ok := lw.model.TryNext()
				// exactly as watchLoop does: Updates() is called again before every receive
				ch := lw.real.Updates()
				if lw.first == nil {
					lw.first = ch
				}
				if ch != lw.first {
					return fail(i, "C14 updates-returns-a-new-channel", "Updates() returned a different channel than on its first call: events are split between channels")
				}
				if !ok {
					select {
					case e, open := <-ch:
						if open {
							return fail(i, "C14 watch-unexpected-event", fmt.Sprintf("watcher on %s delivered an event the model does not have: %s", lw.key, fmtEntry(e)))
						}
					case <-time.After(30 * time.Millisecond):
					}
					break
				}
				select {
				case e, open := <-ch:
					if !open {
						return fail(i, "C14 watch-channel-closed", "")
					}
					if d := diffEvent(e, want); d != "" {
						return fail(i, "C14 watch-event-differs", fmt.Sprintf("watcher on %s: %s", lw.key, d))
					}
					lw.got++
					stats["event"]++
				case <-time.After(500 * time.Millisecond):
					return fail(i, "C14 watch-event-missing", fmt.Sprintf("watcher on %s: model expects %+v, nothing arrived within 500ms (received so far: %d)", lw.key, want, lw.got))
				}
			}
			if lw.got >= 3 {
				stats["watcher-with->=3-events"]++
			}
		case "stopwatch":
			if len(watchers) == 0 {
				continue
			}
			lw := watchers[st.W%len(watchers)]
			if lw.real != nil {
				lw.real.Stop()
				lw.model.Stop()
				lw.real = nil
			}
		case "updatescalls":
			// the number of goroutines must not grow with the number of Updates() calls
			if len(watchers) == 0 {
				continue
			}
			lw := watchers[st.W%len(watchers)]
			if lw.real == nil {
				continue
			}
			before := adapterGoroutines()
			for j := 0; j < 300; j++ {
				lw.real.Updates()
			}
			time.Sleep(5 * time.Millisecond)
			after := adapterGoroutines()
			stats["updates-calls"]++
			if after > before+2 {
				return fail(i, "C14 goroutines-grow-with-updates-calls", fmt.Sprintf("%d goroutines with adapter frames before 300 Updates() calls, %d after", before, after))
			}
		}
	}
	// every watcher is stopped now (whatever it still had pending, whether or not Updates() was ever called on
	// it): no goroutine of the adapter may stay behind
	stopAll()
	left := 0
	for wait := 0; wait < 60; wait++ {
		if left = adapterGoroutines() - baseline; left <= 0 {
			break
		}
		time.Sleep(5 * time.Millisecond)
	}
	stats["watchers-stopped-at-end"] += len(watchers)
	if left > 0 {
		return "C14 goroutines-left-after-stop", fmt.Sprintf("after all %d watchers of the sequence were stopped, %d goroutine(s) with adapter frames are still there 300ms later (%d before the sequence):\n%s", len(watchers), left, baseline, adapterStacks()), stats
	}
	return "", "", stats
}

func adapterStacks() string {
	buf := make([]byte, 1<<22)
	n := runtime.Stack(buf, true)
	var out []string
	for _, g := range strings.Split(string(buf[:n]), "\n\n") {
		if strings.Contains(g, "natsWatcherAdapter") {
			out = append(out, g)
		}
	}
	return strings.Join(out, "\n\n")
}

func adapterGoroutines() int {
	buf := make([]byte, 1<<22)
	n := runtime.Stack(buf, true)
	c := 0
	for _, g := range strings.Split(string(buf[:n]), "\n\n") {
		if strings.Contains(g, "natsWatcherAdapter") {
			c++
		}
	}
	return c
}

func fmtEntry(e leader.Entry) string {
	if e == nil {
		return "nil (marker)"
	}
	return fmt.Sprintf("(key %s, %q, rev %d)", e.Key(), e.Value(), e.Revision())
}

func diffEvent(e leader.Entry, want refkv.Event) string {
	if want.Marker {
		if e != nil {
			return "model expects the nil marker, adapter delivered " + fmtEntry(e)
		}
		return ""
	}
	if e == nil {
		return fmt.Sprintf("adapter delivered nil, model expects %+v", want)
	}
	if e.Revision() != want.Rev || string(e.Value()) != string(want.Value) || e.Key() != want.Key {
		return fmt.Sprintf("adapter delivered %s, model expects (key %s, %q, rev %d, delete=%v)", fmtEntry(e), want.Key, want.Value, want.Rev, want.Delete)
	}
	if want.Delete && len(e.Value()) != 0 {
		return "a deletion must be delivered with an empty value"
	}
	return ""
}

func genSteps() *rapid.Generator[[]Step] {
	return rapid.Custom(func(t *rapid.T) []Step {
		n := rapid.IntRange(6, 40).Draw(t, "n")
		var steps []Step
		sleeps := 0
		if rapid.IntRange(0, 4).Draw(t, "early_watch") > 0 {
			steps = append(steps, Step{Op: "watch", Key: 0})
		}
		for i := 0; i < n; i++ {
			st := Step{Key: rapid.SampledFrom([]int{0, 0, 0, 0, 1, 2}).Draw(t, "key"), W: rapid.IntRange(0, 3).Draw(t, "w")}
			op := rapid.SampledFrom([]string{"create", "create", "update", "update", "update", "get", "get", "delete", "deleterev", "deleteraced", "sleepexpire", "watch", "recv", "recv", "recv", "stopwatch", "updatescalls"}).Draw(t, "op")
			if op == "sleepexpire" {
				if sleeps >= 3 {
					op = "get"
				} else {
					sleeps++
				}
			}
			st.Op = op
			if op == "create" || op == "update" {
				switch rapid.IntRange(0, 5).Draw(t, "vkind") {
				case 0:
					st.Value = []byte{}
				case 1:
					st.Value = []byte("\xff\xfe invalid utf8 \x00")
				case 2:
					st.Value = []byte(strings.Repeat("x", 64*1024))
				default:
					st.Value = []byte(rapid.StringN(0, 20, 40).Draw(t, "val"))
				}
			}
			if op == "update" || op == "deleterev" {
				st.Rev = rapid.SampledFrom([]string{"latest", "latest", "latest", "stale", "future", "zero"}).Draw(t, "rev")
			}
			steps = append(steps, st)
		}
		// most sequences end by draining all watchers (the others stop them with events still pending)
		if rapid.IntRange(0, 3).Draw(t, "drain") > 0 {
			for w := 0; w < 4; w++ {
				steps = append(steps, Step{Op: "recv", W: w})
			}
		}
		return steps
	})
}

func TestC14(t *testing.T) {
	r := report.New("C14")
	defer r.Write()
	r.Rule = "operation sequences (4-30 steps over 3 keys in a fresh memory-storage bucket with MaxAge 200ms on an embedded nats-server, issued through the library's real adapter): Create(v), Update(v, revision in {latest, stale, future, 0}), Get, Delete, DeleteRevision(revision in {latest, stale, future, 0}), sleep past expiry (<=3), Watch, receive-everything on a watcher (calling Updates() before every receive as the watch loop does), stop a watcher, 300 extra Updates() calls; values empty / text / invalid UTF-8 / 64KiB; oracle: after every step the adapter's result equals the reference model's (success, revision, error text, errors.Is/As relations, classification), revisions strictly increase, each watcher receives exactly the model's event queue in order (initial value, nil marker, every change once, deletions as empty values, nothing on expiry) through one stable channel, goroutines with adapter frames do not grow with Updates() calls, and none is left once every watcher of the sequence has been stopped (drained or with events pending, read or never read). Non-trivial = a sequence with a stale-revision Update, a Create after delete or expiry, and a watcher that received >= 3 events; distinct by hash of the sequence."
	r.Assume("real time against nats-server v2.12.2 / nats.go v1.47.0, memory storage; a message lives between MaxAge and MaxAge+~250ms on the server (age timer granularity), so operations are kept out of the window (age in [MaxAge-60ms, MaxAge+330ms]; thorough tier, where 8 servers share the machine: +900ms) in which the outcome is the server's choice; single server (R=1); bucket history 64: with history 1 JetStream itself drops a superseded revision that a lagging watcher has not been sent yet (observed once under load), so 'every change exactly once' is only well-defined within the history depth")
	judge := func(steps []Step) string {
		sig, msg, stats := runSequence(steps)
		if sig == "HARNESS" {
			t.Fatalf("%s", msg)
		}
		nt := stats["update-stale"] > 0 && stats["create-after-delete-or-expiry"] > 0 && stats["watcher-with->=3-events"] > 0
		var cls []string
		for k := range stats {
			cls = append(cls, k)
		}
		r.Case(report.Hash(steps), nt, cls...)
		if nt {
			r.Sample(fmt.Sprint(len(steps)/10), map[string]any{"steps": compact(steps), "stats": stats})
		}
		if sig == "" || r.IsKnown(sig) {
			return ""
		}
		r.Violation(report.Violation{Signature: sig, Message: msg, Replay: r.SaveReplay(steps), Size: len(steps)})
		return sig + ": " + msg
	}
	var rs []Step
	if is, err := report.LoadReplay(&rs); is {
		if err != nil {
			t.Fatal(err)
		}
		if m := judge(rs); m != "" {
			t.Error(m)
		}
		return
	}
	// sequences that once failed (kept under regressions/C14) run first, on the first shard
	if k, _ := report.Shard(); k == 0 {
		regs := report.RegressionInputs("C14")
		var names []string
		for n := range regs {
			names = append(names, n)
		}
		sort.Strings(names)
		for _, n := range names {
			var steps []Step
			if err := json.Unmarshal(regs[n], &steps); err != nil {
				t.Fatalf("regression %s: %v", n, err)
			}
			if m := judge(steps); m != "" {
				t.Errorf("regression %s: %s", n, m)
			}
		}
	}
	rapid.Check(t, func(rt *rapid.T) {
		if m := judge(genSteps().Draw(rt, "steps")); m != "" {
			rt.Fatalf("%s", m)
		}
	})
}

func compact(steps []Step) []string {
	var out []string
	for _, s := range steps {
		x := fmt.Sprintf("%s k%d", s.Op, s.Key)
		if s.Op == "update" {
			x += " rev=" + s.Rev
		}
		if s.Op == "create" || s.Op == "update" {
			x += fmt.Sprintf(" value=%dB", len(s.Value))
		}
		if s.Op == "recv" || s.Op == "stopwatch" || s.Op == "updatescalls" {
			x = fmt.Sprintf("%s w%d", s.Op, s.W)
		}
		out = append(out, x)
	}
	return out
}
