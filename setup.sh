#!/bin/sh
# Offline set-up: nothing is fetched. Pre-builds the harness test binaries from
# /repo's current tree so that the first check does not pay the compile time.
cd "$(dirname "$0")" || exit 1
mkdir -p .build evidence replays
python3 - <<'PY'
import sys, os
sys.path.insert(0, os.getcwd())
import importlib.util, importlib.machinery
spec = importlib.util.spec_from_loader("check", importlib.machinery.SourceFileLoader("check", "./check"))
chk = importlib.util.module_from_spec(spec); spec.loader.exec_module(chk)
from checks_registry import CHECKS
done = set()
for pid, c in sorted(CHECKS.items()):
    for part in (c.get("parts") or [dict(pkg=c["pkg"])]):
        key = (part["pkg"], c.get("race", False))
        if key in done:
            continue
        done.add(key)
        out, sites, s = chk.build(part["pkg"], race=c.get("race", False))
        print("built %s (%.1fs, jitter call sites redirected: %d)" % (out, s, sites))
PY
