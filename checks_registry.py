# property id -> how the driver runs its check. Case counts (not wall-clock) bound every run;
# budget_s is only a ceiling that turns a stuck run into "inconclusive".
SIM = dict(pkg="sim", gomaxprocs=1)
CHECKS = {
    "C01": dict(SIM, test="TestC01", level="exploration",
                quick=dict(cases=3000, shards=1, budget_s=600),
                thorough=dict(cases=30000, shards=16, budget_s=3600)),
    "C05": dict(SIM, test="TestC05", level="exploration",
                quick=dict(cases=2000, shards=1, budget_s=600),
                thorough=dict(cases=20000, shards=16, budget_s=3600)),
    "C08": dict(SIM, test="TestC08", level="exploration",
                quick=dict(cases=3000, shards=1, budget_s=600),
                thorough=dict(cases=30000, shards=16, budget_s=3600)),
    "C18": dict(SIM, test="TestC18", level="exploration",
                quick=dict(cases=3000, shards=1, budget_s=600),
                thorough=dict(cases=30000, shards=16, budget_s=3600)),
    "C19": dict(SIM, test="TestC19", level="exploration",
                quick=dict(cases=3000, shards=1, budget_s=600),
                thorough=dict(cases=30000, shards=16, budget_s=3600)),
    "C02": dict(SIM, test="TestC02", level="exploration",
                quick=dict(cases=4000, shards=1, budget_s=600),
                thorough=dict(cases=40000, shards=16, budget_s=3600)),
    "C07": dict(SIM, test="TestC07", level="exploration",
                quick=dict(cases=3000, shards=1, budget_s=600),
                thorough=dict(cases=30000, shards=16, budget_s=3600)),
    "C16": dict(pkg="pure", test="TestC16", level="exploration",
                quick=dict(cases=20000, shards=1, budget_s=300),
                thorough=dict(cases=200000, shards=16, budget_s=1800)),
}
